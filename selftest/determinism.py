#!/venv/bin/python
"""Determinism self-test (DESIGN 8): every listed property's generation run AND the replay of its recorded
case are executed for N indices in two fresh interpreters with different PYTHONHASHSEEDs; the per-run digests
(event log + both trees + decoded storage rows + notification log + counters + virtual clock) must be identical,
and replay(case) must reproduce the generating run's digest.
usage: determinism.py [N] [props...]"""
import os, sys, subprocess, json
V = os.path.dirname(os.path.dirname(os.path.abspath(__file__)))
CHILD = r'''
import sys, os, random, json
sys.path.insert(0, %r)
from sim import runner
pid = sys.argv[1]; n = int(sys.argv[2]); seed = int(sys.argv[3])
prop = runner.load_prop(pid)
if hasattr(prop, "warmup"):
    prop.warmup()
cmp_replay = getattr(prop, "SELFTEST_REPLAY_COMPARABLE", True)
out = []
for i in range(n):
    r = prop.generate(random.Random(runner.mix(seed, pid, i)), "thorough", i)
    import hashlib
    def dg(res):
        st = res["stats"]
        return st.get("digest") or hashlib.sha256(repr((st.get("shape"), sorted((st.get("faults") or {}).items()), res["violation"])).encode()).hexdigest()[:16]
    d1 = dg(r)
    r2 = prop.replay(r["case"])
    d2 = dg(r2) if cmp_replay else d1
    out.append((d1, d2, bool(r["violation"]), bool(r2["violation"])))
print("DIGESTS " + json.dumps(out))
''' % V

def run(pid, n, seed, hashseed):
    env = dict(os.environ, PYTHONHASHSEED=str(hashseed), VERIF_DIGEST="1")
    p = subprocess.run([sys.executable, "-c", CHILD, pid, str(n), str(seed)], env=env, stdout=subprocess.PIPE, stderr=subprocess.PIPE, text=True)
    for l in p.stdout.splitlines():
        if l.startswith("DIGESTS "):
            return json.loads(l[8:])
    raise SystemExit("child failed for %s: %s" % (pid, p.stderr[-2000:]))

if __name__ == "__main__":
    n = int(sys.argv[1]) if len(sys.argv) > 1 else 150
    props = sys.argv[2:] or sorted(f[:-3].upper() for f in os.listdir(os.path.join(V, "props")) if f.startswith("c") and f[1:3].isdigit())
    bad = 0
    for pid in props:
        a = run(pid, n, 7, 0); b = run(pid, n, 7, 12345)
        diff = [i for i, (x, y) in enumerate(zip(a, b)) if x != y]
        self_diff = [i for i, x in enumerate(a) if x[0] is not None and (x[0] != x[1] or x[2] != x[3])]
        nodig = sum(1 for x in a if x[0] is None)
        print("%s: runs=%d cross-interpreter/hashseed mismatches=%d generate-vs-replay mismatches=%d (no-digest=%d)" % (pid, n, len(diff), len(self_diff), nodig))
        if diff or self_diff:
            bad += 1; print("   first:", (diff + self_diff)[:5])
    sys.exit(1 if bad else 0)
