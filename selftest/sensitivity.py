#!/venv/bin/python
"""Sensitivity self-test (DESIGN 8/15): every seeded change under /verif/seeded whose meta.json names a catching check is applied
to a scratch worktree of /repo HEAD (never to /repo), the catching check's quick tier is pointed at it (VERIF_REPO) and must
exit 1 with a VIOLATION line; the worktree is removed afterwards.
usage: sensitivity.py [name-prefix ...]"""
import json, os, subprocess, sys, glob
V = os.path.dirname(os.path.dirname(os.path.abspath(__file__)))
want = sys.argv[1:]
bad = 0
for meta in sorted(glob.glob(os.path.join(V, "seeded", "*", "meta.json"))):
    name = os.path.basename(os.path.dirname(meta))
    if want and not any(name.startswith(w) for w in want):
        continue
    m = json.load(open(meta))
    if not m.get("caught_by"):
        print("%-50s (recorded as not caught / not confirmed: skipped)" % name)
        continue
    chk = m["caught_by"][0]
    tier = ((m.get("checks") or {}).get(chk) or {}).get("tier", "quick")
    wt = "/tmp/sens-%s" % name
    subprocess.run(["git", "-C", "/repo", "worktree", "remove", "--force", wt], capture_output=True)
    subprocess.run(["git", "-C", "/repo", "worktree", "add", "-q", "--detach", wt, "HEAD"], check=True)
    try:
        ap = subprocess.run(["git", "-C", wt, "apply", "--3way", os.path.join(os.path.dirname(meta), "patch.diff")], capture_output=True, text=True)
        if ap.returncode != 0:
            print("%-50s patch no longer applies: %s" % (name, ap.stderr.strip()[-100:]))
            bad += 1
            continue
        env = dict(os.environ, VERIF_REPO=wt)
        env.pop("PYTHONHASHSEED", None); env.pop("VERIF_REEXEC", None)
        p = subprocess.run(["/venv/bin/python", os.path.join(V, "run_check.py"), chk, "--tier", tier], env=env, capture_output=True, text=True, cwd=V)
        ok = p.returncode == 1 and "VIOLATION property=%s" % chk in p.stdout
        print("%-50s %s (%s) -> exit %d %s" % (name, chk, tier, p.returncode, "caught" if ok else "NOT CAUGHT"))
        bad += 0 if ok else 1
    finally:
        subprocess.run(["git", "-C", "/repo", "worktree", "remove", "--force", wt], capture_output=True)
sys.exit(1 if bad else 0)
