#!/usr/bin/env python3
"""Run the pinned baseline test command against a tree and compare with BASELINE.json's stable_pass list.
usage: baseline.py [repo_dir]   (default /repo).  Exit 0 iff every stable_pass test still passes."""
import json, subprocess, sys, os, tempfile, xml.etree.ElementTree as ET
repo = sys.argv[1] if len(sys.argv) > 1 else "/repo"
b = json.load(open("/root/.vp/BASELINE.json"))
fd, junit = tempfile.mkstemp(suffix=".xml"); os.close(fd)
env = dict(os.environ); env.pop("CLOUDSYNC_VERIF", None)
subprocess.run(["/venv/bin/python", "-m", "pytest", "-ra", "-q", "-p", "no:cacheprovider", "--timeout=900",
                "--continue-on-collection-errors", "--junitxml=" + junit], cwd=repo, env=env,
               stdout=subprocess.DEVNULL, stderr=subprocess.DEVNULL)
passed = set()
for tc in ET.parse(junit).getroot().iter("testcase"):
    if not any(ch.tag in ("failure", "error", "skipped") for ch in tc):
        passed.add(tc.get("classname") + "::" + tc.get("name"))
os.unlink(junit)
want = set(b["stable_pass"])
missing = sorted(want - passed)
print("stable_pass=%d passed_now=%d still_passing=%d missing=%d" % (len(want), len(passed), len(want & passed), len(missing)))
for m in missing: print("  MISSING", m)
sys.exit(1 if missing else 0)
