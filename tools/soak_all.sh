#!/bin/bash
# Development aid: every registered check, quick tier, seeds $1..$2; prints only the alarms and a one-line summary per (check, seed).
cd "$(dirname "$0")/.."
for sd in $(seq ${1:-1} ${2:-10}); do
  for p in C01 C02 C03 C04 C05 C06 C07 C08 C09 C10 C11 C12 C14 C15 C16 C17 C18 C19 C20; do
    out=$(VERIF_SEED=$sd timeout 900 /venv/bin/python run_check.py $p --tier ${3:-quick} 2>/dev/null)
    rc=$?
    if [ $rc -ne 0 ]; then echo "ALARM $p seed=$sd exit=$rc"; echo "$out" | grep "^violation\|^VIOLATION\|^HARNESS" | cut -c1-400; fi
    echo "$out" | grep "^$p tier" | cut -c1-200
  done
done
