#!/venv/bin/python
"""Regenerate MANIFEST.json from the property modules that exist (props/cXX.py)."""
import json, os, sys, importlib
V = os.path.dirname(os.path.dirname(os.path.abspath(__file__)))
sys.path.insert(0, V)
props = [json.loads(l) for l in open(os.path.join(V, "properties.jsonl"))]
NA = {
    "C13": "pure functions of their string arguments and four provider class constants: no schedule, clock, fault, crash or interleaving for a simulator to own (DESIGN.md section 6); driving them with generated strings would be input generation, not simulation",
}
checks, na = [], []
for p in props:
    pid = p["id"]
    path = os.path.join(V, "props", pid.lower() + ".py")
    if pid in NA:
        na.append({"property_id": pid, "reason": NA[pid]}); continue
    if not os.path.exists(path):
        na.append({"property_id": pid, "reason": "check not built yet in this session (planned, see DESIGN.md section 5); not claimed until it exists"}); continue
    m = importlib.import_module("props." + pid.lower())
    cmd = "timeout %d /venv/bin/python run_check.py %s --tier %s"
    checks.append({
        "property_id": pid,
        "quick_cmd": cmd % (getattr(m, "QUICK_TIMEOUT", 600), pid, "quick"),
        "thorough_cmd": cmd % (getattr(m, "THOROUGH_TIMEOUT", 2400), pid, "thorough"),
        "evidence_file": "/verif/evidence/%s.json" % pid,
        "replay_cmd_template": "/venv/bin/python run_check.py %s --replay {path}" % pid,
        "engine": getattr(m, "ENGINE", "sim-step"),
        "level_claimed": {"category": m.LEVEL, "text": m.LEVEL_TEXT, "design_ref": "DESIGN.md section 5/" + pid},
        "level_note": m.LEVEL_NOTE,
        "technique": m.TECHNIQUE,
    })
man = {
    "version": 1,
    "setup_cmd": "/venv/bin/python tools/setup.py",
    "hooks": {"guard": "CLOUDSYNC_VERIF", "enable": "no source hook is needed: the harness rebinds module-level names (time, threading, queue, RLock, Lock, os, tempfile) of the cloudsync modules imported from /repo's working tree and wraps methods of live instances (sim/det.py, sim/world.py, sim/threads.py); the guard variable is reserved and unused by /repo",
              "baseline_off_cmd": "cd /repo && /venv/bin/python -m pytest -ra -q -p no:cacheprovider --timeout=900 --continue-on-collection-errors",
              "source_commits": [], "add_only": True},
    "engines": [
        {"name": "sim-step", "path": "sim/world.py sim/plan.py sim/runner.py", "serves_properties": [c["property_id"] for c in checks if c["engine"] == "sim-step"],
         "kind_free_text": "deterministic step simulator: real CloudSync/SyncManager/EventManager/SyncState + two MockProviders, virtual clock, seeded plans of user ops / engine steps / faults / crashes, ddmin, fresh-interpreter replay"},
        {"name": "sim-threads", "path": "sim/threads.py", "serves_properties": [c["property_id"] for c in checks if c["engine"] == "sim-threads"],
         "kind_free_text": "baton-passing real threads with sim Event/RLock/Queue/Thread/clock and sys.settrace line pre-emption; every switch is a seeded PRNG decision (one seed = one exactly repeatable execution)"},
        {"name": "sim-seq", "path": "props/c09.py props/c16.py props/c19.py sim/runner.py", "serves_properties": [c["property_id"] for c in checks if c["engine"] == "sim-seq"],
         "kind_free_text": "seeded operation/fault-sequence search against a reference model with shrinking and replay"},
    ],
    "checks": checks,
    "not_applicable": na,
    "notes": "All checks: exit 0 = held, 1 = VIOLATION line + replay file, 2 = harness failure (never a verdict). Known findings: known_findings.json (never written at run time; open entries print KNOWN-FINDING lines, fixed entries carry regression exemplars that are replayed on every run). DESIGN.md Part II records what was built, the 15 fix: commits in /repo, the open findings, corrected false alarms and the seeded-change results. Self-tests: selftest/determinism.py, selftest/sensitivity.py.",
}
json.dump(man, open(os.path.join(V, "MANIFEST.json"), "w"), indent=1)
print("checks:", [c["property_id"] for c in checks], "na:", [n["property_id"] for n in na])
