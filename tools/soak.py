#!/venv/bin/python
"""Development aid: run a check's quick (or thorough) tier under several VERIF_SEED values and list every seed that raises an alarm.
usage: soak.py PROP first_seed n_seeds [tier]"""
import subprocess, sys, os
V = os.path.dirname(os.path.dirname(os.path.abspath(__file__)))
pid, s0, n = sys.argv[1].upper(), int(sys.argv[2]), int(sys.argv[3])
tier = sys.argv[4] if len(sys.argv) > 4 else "quick"
bad = 0
for sd in range(s0, s0 + n):
    env = dict(os.environ, VERIF_SEED=str(sd))
    env.pop("PYTHONHASHSEED", None); env.pop("VERIF_REEXEC", None)
    p = subprocess.run(["/venv/bin/python", os.path.join(V, "run_check.py"), pid, "--tier", tier], env=env, capture_output=True, text=True, cwd=V)
    lines = [l for l in p.stdout.splitlines() if l.startswith(("violation", "VIOLATION", "HARNESS", pid + " tier"))]
    if p.returncode != 0:
        bad += 1
        print("SEED %d exit %d" % (sd, p.returncode))
        for l in lines:
            print("   ", l[:400])
    else:
        print("seed %d ok  %s" % (sd, lines[-1][len(pid) + 1:160] if lines else ""))
sys.exit(1 if bad else 0)
