#!/bin/bash
# Rewrites /verif/evidence/<id>.json from quick-tier runs against /repo itself (run before committing evidence).
cd "$(dirname "$0")/.."
for p in C01 C02 C03 C04 C05 C06 C07 C08 C09 C10 C11 C12 C14 C15 C16 C17 C18 C19 C20; do
  timeout 900 /venv/bin/python run_check.py $p --tier ${1:-quick} 2>/dev/null | grep "^$p tier\|^VIOLATION\|^HARNESS" | cut -c1-220
done
