#!/venv/bin/python
"""MANIFEST.setup_cmd: offline. Verifies the interpreter can import what the checks need (installing from the
offline wheelhouse only if something is missing) and that cloudsync is importable from /repo."""
import importlib, subprocess, sys, os
need = ["msgpack", "pystrict", "xxhash", "hypothesis", "watchdog"]
missing = []
for m in need:
    try:
        importlib.import_module(m)
    except Exception:
        missing.append(m)
if missing:
    subprocess.call([sys.executable, "-m", "pip", "install", "--no-index", "--find-links", "/opt/veriftools/wheels"] + missing)
    for m in missing:
        importlib.import_module(m)
sys.path.insert(0, os.path.dirname(os.path.dirname(os.path.abspath(__file__))))
from sim import det  # noqa: E402  (asserts cloudsync comes from /repo)
print("setup ok: cloudsync from", det.REPO)
