#!/venv/bin/python
"""Evaluate one seeded change delivered by a sub-agent (never applied to /repo by this tool: the checks are pointed
at a scratch worktree through VERIF_REPO, which is the same code path as /repo).
usage: mutant.py <out-dir> <k> <name> <CHECK>[,<CHECK>...] [--tier quick] [--skip-confirm]
 1. scratch worktree of /repo HEAD under /tmp/mutv; demo on the clean tree must exit 0
 2. apply patch<k>.diff; demo must exit non-zero; baseline (150 stable tests) must still pass
 3. run the named checks against the patched worktree; record exit codes / VIOLATION lines
 4. remove the worktree; write /verif/seeded/<name>/{patch.diff,demo.py,meta.json}"""
import sys, os, subprocess, json, shutil, time
V = os.path.dirname(os.path.dirname(os.path.abspath(__file__)))
out, k, name, checks = sys.argv[1], sys.argv[2], sys.argv[3], sys.argv[4].split(",")
tier = "quick"
if "--tier" in sys.argv:
    tier = sys.argv[sys.argv.index("--tier") + 1]
skip = "--skip-confirm" in sys.argv
patch = os.path.join(out, "patch%s.diff" % k)
demo = os.path.join(out, "demo%s.py" % k)
meta_in = os.path.join(out, "meta%s.json" % k)
wt = "/tmp/mutv/%s" % name
os.makedirs("/tmp/mutv", exist_ok=True)
subprocess.run(["git", "-C", "/repo", "worktree", "remove", "--force", wt], capture_output=True)
subprocess.run(["git", "-C", "/repo", "worktree", "add", "-q", "--detach", wt, "HEAD"], check=True)
res = {"name": name, "source": out, "k": k, "ran": []}
try:
    def run(cmd, **kw):
        p = subprocess.run(cmd, capture_output=True, text=True, **kw)
        return p.returncode, (p.stdout + p.stderr)
    if not skip:
        rc0, o0 = run(["/venv/bin/python", demo, wt], cwd=wt, timeout=900)
        res["demo_clean_exit"] = rc0
    ap = subprocess.run(["git", "-C", wt, "apply", patch], capture_output=True, text=True)
    if ap.returncode != 0:
        # /repo has moved on (fix: commits) since the sub-agent's worktree was cut: port the change with a 3-way apply
        ap = subprocess.run(["git", "-C", wt, "apply", "--3way", patch], capture_output=True, text=True)
        if ap.returncode == 0:
            subprocess.run(["git", "-C", wt, "reset", "-q"], capture_output=True)
            ported = subprocess.run(["git", "-C", wt, "diff"], capture_output=True, text=True).stdout
            patch = "/tmp/mutv/%s.ported.diff" % name
            open(patch, "w").write(ported)
            res["ported"] = True
    if ap.returncode != 0:
        res["error"] = "patch does not apply to HEAD: " + ap.stderr[-300:]
        print(json.dumps(res, indent=1)); sys.exit(3)
    if not skip:
        rc1, o1 = run(["/venv/bin/python", demo, wt], cwd=wt, timeout=900)
        res["demo_patched_exit"] = rc1
        res["demo_patched_tail"] = o1[-300:]
        rcb, ob = run(["/venv/bin/python", os.path.join(V, "tools/baseline.py"), wt], timeout=1800)
        res["baseline"] = [l for l in ob.splitlines() if l.startswith("stable_pass")][-1:] + [l for l in ob.splitlines() if "MISSING" in l][:5]
        if rcb != 0:
            # timing-based tests (longpoll, runnable, oauth) flake when all cores are busy: re-run just the missing ones
            missing = [l.split("MISSING", 1)[1].strip() for l in ob.splitlines() if "MISSING" in l]
            ids = [m.replace("cloudsync.tests.", "cloudsync/tests/").replace("::", ".py::", 1) if ".py" not in m else m for m in missing]
            ids = [i.split("::")[0].replace(".", "/").replace("/py", ".py") + "::" + "::".join(i.split("::")[1:]) for i in ids]
            rr, orr = run(["/venv/bin/python", "-m", "pytest", "-q", "-p", "no:cacheprovider", "--timeout=900"] + ids, cwd=wt, timeout=1800)
            res["baseline"].append("re-run of missing tests alone: exit %d: %s" % (rr, orr.strip().splitlines()[-1] if orr.strip() else ""))
            if rr == 0:
                rcb = 0
        res["confirmed"] = (rc0 == 0 and rc1 != 0 and rcb == 0)
    caught = []
    for c in checks:
        env = dict(os.environ, VERIF_REPO=wt)
        env.pop("PYTHONHASHSEED", None); env.pop("VERIF_REEXEC", None)
        t0 = time.time()
        rc, o = run(["/venv/bin/python", os.path.join(V, "run_check.py"), c, "--tier", tier], cwd=V, env=env, timeout=7200)
        viol = [l for l in o.splitlines() if l.startswith("VIOLATION")]
        summ = [l for l in o.splitlines() if l.startswith(c + " tier=")]
        det = [l[:300] for l in o.splitlines() if l.startswith("violation")][:2]
        res["ran"].append({"check": c, "tier": tier, "exit": rc, "violations": len(viol), "first": det, "summary": summ[-1:] , "secs": round(time.time() - t0, 1)})
        if rc == 1 and viol:
            caught.append(c)
        if rc == 2:
            res.setdefault("harness_errors", []).append(o[-1500:])
    res["caught_by"] = caught
finally:
    subprocess.run(["git", "-C", "/repo", "worktree", "remove", "--force", wt], capture_output=True)
d = os.path.join(V, "seeded", name)
os.makedirs(d, exist_ok=True)
shutil.copy(patch, os.path.join(d, "patch.diff"))
shutil.copy(demo, os.path.join(d, "demo.py"))
meta = {}
try:
    meta = json.load(open(meta_in))
except Exception:
    pass
old = {}
try:
    old = json.load(open(os.path.join(d, "meta.json")))
except Exception:
    pass
m = {"property": meta.get("property"), "summary": meta.get("summary"), "needs": meta.get("needs"), "files_touched": meta.get("files_touched"),
     "confirmation": {key: res.get(key, old.get("confirmation", {}).get(key)) for key in ("demo_clean_exit", "demo_patched_exit", "baseline", "confirmed")},
     "what_i_ran": "tools/mutant.py: scratch worktree of /repo HEAD, demo before/after `git apply`, tools/baseline.py (pinned 150 tests), then run_check.py <check> --tier %s with VERIF_REPO=<patched worktree>" % tier,
     "checks": {**old.get("checks", {}), **{r["check"]: r for r in res["ran"]}}}
m["caught_by"] = sorted(c for c, r in m["checks"].items() if r["exit"] == 1 and r["violations"])
json.dump(m, open(os.path.join(d, "meta.json"), "w"), indent=1)
print(json.dumps({"name": name, "confirmed": res.get("confirmed"), "caught_by": m["caught_by"], "ran": [(r["check"], r["exit"], r["violations"], r["first"][:1]) for r in res["ran"]], "err": res.get("harness_errors", [])[:1]}, indent=1)[:3000])
