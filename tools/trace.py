#!/venv/bin/python
"""Development aid: replay a case/replay/survey-dump entry with the engine's own debug log on stderr.
usage: trace.py <file.json> [PROP]"""
import sys, os, json, logging
sys.path.insert(0, os.path.dirname(os.path.dirname(os.path.abspath(__file__))))
from sim import runner, det
doc = runner.unjs(json.load(open(sys.argv[1])))
case = doc.get("case", doc)
pid = sys.argv[2] if len(sys.argv) > 2 else (doc.get("property") or case.get("prop"))
prop = runner.load_prop(pid)
logging.disable(logging.NOTSET)
root = logging.getLogger()
for h in list(root.handlers):
    root.removeHandler(h)
h = logging.StreamHandler(sys.stdout)
h.setFormatter(logging.Formatter("%(module)s:%(lineno)d %(message)s"))
root.addHandler(h)
root.setLevel(int(os.environ.get("LVL", "10")))
det.quiet_logging = lambda: None
r = prop.replay(case)
print("VIOLATION:", r["violation"])
