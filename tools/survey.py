#!/venv/bin/python
"""Development aid: run N seeded runs of a property, minimise every violation, cluster by signature.
usage: survey.py C01 <n0> <n1> [tier] [jobs]"""
import sys, os, collections, random, json, time
sys.path.insert(0, os.path.dirname(os.path.dirname(os.path.abspath(__file__))))
import concurrent.futures as cf, multiprocessing
from sim import runner
from sim.plan import canon_user_ops, schedule_sig
from sim import findings

def work(a):
    pid, tier, seed, lo, hi, stride = a
    prop = runner.load_prop(pid)
    out = []; n = 0
    for i in range(lo, hi, stride):
        rng = random.Random(runner.mix(seed, pid, i))
        try:
            r = prop.generate(rng, tier, i)
        except Exception as e:
            import traceback
            out.append((i, "HARNESS", traceback.format_exc()[-800:], None, None)); continue
        n += 1
        if r["violation"]:
            m, v, _ = runner._minimise_job((pid, r["case"], r["violation"]))
            if v is None:
                out.append((i, "NONDET", "", r["case"], r["violation"])); continue
            fid = findings.match(pid, m, v)
            out.append((i, fid or "UNMATCHED", canon_user_ops(m.get("plan", [])) + " | " + str(m.get("cfg", {}).get("flavour")) + " " + str(m.get("family")) + " | " + v["cls"] + " " + str(v.get("tokens", "")) + " " + str(v.get("unhandled", "")) + " " + str(v.get("mech", "")), m, v))
    return n, out

if __name__ == "__main__":
    pid = sys.argv[1].upper(); n0 = int(sys.argv[2]); n1 = int(sys.argv[3]); tier = sys.argv[4] if len(sys.argv) > 4 else "thorough"
    jobs = int(sys.argv[5]) if len(sys.argv) > 5 else 16
    seed = int(os.environ.get("VERIF_SEED", "0"))
    t0 = time.time()
    ctx = multiprocessing.get_context("fork")
    with cf.ProcessPoolExecutor(jobs, mp_context=ctx) as pool:
        res = list(pool.map(work, [(pid, tier, seed, n0 + w, n1, jobs) for w in range(jobs)]))
    tot = sum(r[0] for r in res); allv = [v for r in res for v in r[1]]
    cl = collections.defaultdict(list)
    for i, fid, sig, m, v in allv: cl[(fid, sig)].append((i, m, v))
    print("runs", tot, "violations", len(allv), "clusters", len(cl), "secs", round(time.time() - t0, 1))
    if os.environ.get("SURVEY_DUMP"):
        json.dump([{"i": i, "fid": fid, "sig": sig, "case": m, "viol": v} for i, fid, sig, m, v in allv], open(os.environ["SURVEY_DUMP"], "w"), default=runner._js, indent=1)
    coarse = collections.Counter()
    for i, fid, sig, m, v in allv:
        if m is None: coarse[(fid, "?")] += 1; continue
        ops = sorted(set(it[2] for it in m.get("plan", []) if it[0] == "U"))
        sides = len(set(it[1] for it in m.get("plan", []) if it[0] == "U"))
        coarse[(fid, ",".join(ops), "sides=%d" % sides, m.get("family"), v["cls"])] += 1
    for k, n in sorted(coarse.items(), key=lambda kv: -kv[1]): print("%5d %s" % (n, k))
    if os.environ.get("SURVEY_BRIEF"): sys.exit(0)
    for (fid, sig), items in sorted(cl.items(), key=lambda kv: -len(kv[1])):
        print("%4d %-12s %s  runs=%s" % (len(items), fid, sig, [x[0] for x in items][:4]))
