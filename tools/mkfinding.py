#!/venv/bin/python
"""Development aid (never run by a check): from a survey dump pick the smallest case matched to an open finding for a
property, store it as that finding's exemplar for that property and record the measured rate.
usage: mkfinding.py <dump.json> <PROP> <runs-in-survey>"""
import sys, os, json
V = os.path.dirname(os.path.dirname(os.path.abspath(__file__)))
sys.path.insert(0, V)
dump, pid, runs = sys.argv[1], sys.argv[2].upper(), int(sys.argv[3])
d = json.load(open(dump))
kf = json.load(open(os.path.join(V, "known_findings.json")))
byf = {}
for x in d:
    if x["fid"] and x["fid"] not in ("UNMATCHED", "NONDET", "HARNESS"):
        byf.setdefault(x["fid"], []).append(x)
for f in kf["findings"]:
    if f.get("status") != "open" or f["id"] not in byf:
        continue
    xs = byf[f["id"]]
    best = min(xs, key=lambda x: (len(x["case"].get("plan") or (x["case"].get("plans") or [[]])[0]), x["i"]))
    name = "findings/%s.%s.json" % (f["id"], pid)
    json.dump({"property": pid, "expect": {"cls": best["viol"]["cls"]}, "violation": best["viol"], "case": best["case"], "hashseed": "0"},
              open(os.path.join(V, name), "w"), indent=1)
    f["exemplars"] = [e for e in f.get("exemplars", []) if not e.endswith(".%s.json" % pid)] + [name]
    f.setdefault("expected_rate", {})[pid] = round(len(xs) / runs, 5)
    if pid not in f["properties"]:
        f["properties"].append(pid)
    print(f["id"], pid, "exemplar", name, "rate", f["expected_rate"][pid], "n", len(xs))
json.dump(kf, open(os.path.join(V, "known_findings.json"), "w"), indent=1)
