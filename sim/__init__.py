"""Deterministic simulation harness for AtakamaLLC/cloudsync (see /verif/DESIGN.md)."""
