"""The simulated world of the step driver (DESIGN.md 3.1-A): two real MockProviders, a dict-backed
Storage, the real CloudSync, and a control block through which the scheduler owns engine steps,
provider faults, crash points and the event feed."""
import io
import hashlib
import traceback
import os
import sys

from . import det
from .det import CLOCK, statemod, mgrmod, eventmod, runmod, mockmod

import msgpack
from cloudsync import CloudSync, exceptions as ex
from cloudsync.providers.mock import MockProvider
from cloudsync.types import DIRECTORY, FILE
from cloudsync.sync.state import Storage
from cloudsync.notification import NotificationType

CREDS = {"key": "val"}
WRITES = ("create", "upload", "rename", "mkdir", "delete")
READS = ("info_path", "info_oid", "exists_oid", "exists_path", "listdir", "download", "hash_oid")
OTHER = ("events", "connect", "reconnect")
INTERCEPT = WRITES + READS + OTHER

FLAVOURS = {
    # name: ((oid_is_path, case_sensitive, filter_events), (…))   side 0 = local, side 1 = remote
    "oo": ((False, True, False), (False, True, False)),
    "po": ((True, True, False), (False, True, True)),
    "pp": ((True, True, False), (True, True, False)),
    "op": ((False, True, False), (True, True, False)),
    "of": ((False, True, False), (False, True, True)),
    "ff": ((False, True, True), (False, True, True)),
    "oo_ci": ((False, False, False), (False, False, False)),
    "po_ci": ((True, False, False), (False, False, True)),
    "pp_ci": ((True, False, False), (True, False, False)),
    # mixed case rules: side 0 case-sensitive, side 1 not (and the reverse)
    "oo_mix": ((False, True, False), (False, False, False)),
    "po_mix": ((True, True, False), (False, False, True)),
    "oo_xim": ((False, False, False), (False, True, False)),
}


class SimCrash(BaseException):
    """Process death.  BaseException so that no ``except Exception`` in the engine can swallow it."""


class HarnessError(Exception):
    """The harness (not the code under test) misbehaved: never a verdict."""


FAULT_EXC = {
    "temp": lambda: ex.CloudTemporaryError("sim temporary"),
    "disc": lambda: ex.CloudDisconnectedError("sim disconnected"),
    "token": lambda: ex.CloudTokenError("sim token"),
    "space": lambda: ex.CloudOutOfSpaceError("sim out of space"),
    "corrupt": lambda: ex.CloudCorruptError("sim corrupt"),
}
FAULT_NOTE = {
    "temp": NotificationType.TEMPORARY_ERROR,
    "disc": NotificationType.DISCONNECTED_ERROR,
    "space": NotificationType.OUT_OF_SPACE_ERROR,
}


class Ctl:
    """Mutable control block shared by the storage wrapper, the provider wrappers and the scheduler."""

    def __init__(self):
        self.engine = False          # True while engine code runs (step driver) / callable for driver B
        self.depth = 0
        self.ncalls = 0              # engine->provider API calls
        self.npw = 0                 # engine-issued provider writes
        self.nsw = 0                 # storage writes
        self.crash_at_sw = None
        self.crash_at_pw = None
        self.faults = {}             # call index -> (kind, after_effect)
        self.fault_gen = None        # generation mode: callable(idx, side, name, args) -> (kind, after)|None
        self.faults_on = True
        self.fired = []              # [(idx, side, name, kind, after, step_no, stack_sig)]
        self.writes = []             # [(idx, side, name, arg_desc, step_no)]
        self.calls = []              # optional full call log
        self.log_calls = False
        self.hook_pre = None         # callable(side, name, args, idx): cooperative "buggify" point
        self.step_no = 0
        self.resolve_paths = False
        self.corrupt = {}            # side -> set(oids) whose download raises CloudCorruptError
        self.hard_fail = {}          # side -> set(account paths) whose create/upload/mkdir raises OSError (a non-cloud failure)
        self.event_fail = {}         # side -> the next intake of `side` raises CloudTemporaryError after k events
        self.event_take = {}         # side -> max number of events to hand over in the next intake (split intake)
        self.mangler = {}            # side -> callable(list_of_events) -> list_of_events   (C14)
        self.attrib = None           # entry currently being synchronised (set by props that wrap _sync_one_entry)
        self.events_seen = [0, 0]

    def disarm(self):
        # (crash points stay armed: they are part of the enumeration, not of the fault mix; C07 disarms them itself)
        self.faults_on = False
        self.fault_gen = None
        self.hook_pre = None
        self.event_take = {}
        self.event_fail = {}
        self.mangler = {}


class SimStorage(Storage):
    """Dict-backed Storage: the durable state.  Counts writes and can die *before* write k."""

    def __init__(self, d, ctl):
        self.d = d
        self.ctl = ctl
        self.n = max([k for t in d.values() for k in t] + [0])

    def _w(self):
        c = self.ctl
        c.nsw += 1
        if c.crash_at_sw is not None and c.crash_at_sw == c.nsw:
            raise SimCrash("before storage write %d" % c.nsw)

    def create(self, tag, serialization):
        self._w()
        self.n += 1
        self.d.setdefault(tag, {})[self.n] = serialization
        return self.n

    def update(self, tag, serialization, eid):
        self._w()
        if eid not in self.d.get(tag, {}):
            raise ValueError("id %s doesn't exist" % eid)
        self.d[tag][eid] = serialization
        return 1

    def delete(self, tag, eid):
        self._w()
        self.d.get(tag, {}).pop(eid, None)

    def read_all(self, tag=None):
        if tag is None:
            return {t: dict(v) for t, v in self.d.items()}
        return dict(self.d.get(tag, {}))

    def read(self, tag, eid):
        return self.d.get(tag, {}).get(eid)


def _desc_arg(a):
    if isinstance(a, (str, int, float, type(None))):
        return a
    return type(a).__name__


def wrap_provider(p, side, ctl):
    """Replace the Provider API methods *on the instance* by interceptors that act only when the engine
    (not a user, not the provider's own nested call) is the caller."""
    for name in INTERCEPT:
        orig = getattr(p, name)

        def mk(orig, name):
            def f(*a, **kw):
                eng = ctl.engine() if callable(ctl.engine) else ctl.engine
                if not eng or ctl.depth:
                    return orig(*a, **kw)
                ctl.depth += 1
                try:
                    return _engine_call(p, side, ctl, name, orig, a, kw)
                finally:
                    ctl.depth -= 1
            f.__name__ = name
            f._orig = orig
            return f
        setattr(p, name, mk(orig, name))


def _stack_sig():
    """Engine call path (cloudsync frames only) of the current provider call - used to identify
    mechanism-defined findings (DESIGN 4.2)."""
    out = []
    for fs in traceback.extract_stack()[:-3]:
        fn = fs.filename
        if "/cloudsync/" in fn and "/providers/" not in fn:
            out.append(fs.name)
    return ">".join(out[-6:])


def _engine_call(p, side, ctl, name, orig, a, kw):
    ctl.ncalls += 1
    idx = ctl.ncalls
    if ctl.hook_pre is not None:
        ctl.depth -= 1
        was = ctl.engine
        try:
            ctl.hook_pre(side, name, a, idx)
        finally:
            ctl.engine = was
            ctl.depth += 1
    fault = None
    if ctl.faults_on and name not in ("connect", "reconnect"):
        if ctl.fault_gen is not None:
            fault = ctl.fault_gen(idx, side, name, a)
            if fault:
                ctl.faults[idx] = fault
        else:
            fault = ctl.faults.get(idx)
            if fault is not None:
                fault = tuple(fault)
    if fault and name == "events" and fault[1]:
        fault = (fault[0], False)
    if fault and not fault[1]:
        ctl.fired.append((idx, side, name, fault[0], False, ctl.step_no, _stack_sig()))
        if fault[0] == "disc":
            p.disconnect()
        raise FAULT_EXC[fault[0]]()
    hf = ctl.hard_fail.get(side) if ctl.hard_fail else None
    if hf and name in ("create", "upload", "mkdir") and a:
        # a path on which the provider's own machinery fails with a NON-cloud exception (permission denied on a local disk...)
        tgt = a[0]
        if name == "upload":
            try:
                info = p.info_oid(a[0])
                tgt = info.path if info else None
            except ex.CloudException:
                tgt = None
        if tgt in hf:
            ctl.fired.append((idx, side, name, "oserror", False, ctl.step_no, ""))
            raise OSError(13, "sim: permission denied", tgt)
    if name == "download" and ctl.corrupt.get(side) and a and a[0] in ctl.corrupt[side]:
        ctl.fired.append((idx, side, name, "corrupt", False, ctl.step_no, ""))
        raise ex.CloudCorruptError("sim corrupt %s" % a[0])
    desc = None
    if name in WRITES:
        desc = tuple(_desc_arg(x) for x in a)
        if ctl.resolve_paths and name in ("upload", "rename", "delete") and a:
            try:
                info = p.info_oid(a[0])
                desc = desc + ("@" + str(info.path if info else None),)
            except ex.CloudException:
                desc = desc + ("@?",)
    if name == "events":
        return _engine_events(p, side, ctl, orig)
    r = orig(*a, **kw)
    if ctl.log_calls:
        ctl.calls.append((idx, side, name, tuple(_desc_arg(x) for x in a), ctl.step_no))
    if name in ("upload", "create", "rename") and ctl.corrupt.get(side):
        # the engine replaced the unreadable object's bytes with known-good ones (or, with path ids, put a good
        # object where the unreadable one used to be): that id is readable again
        ro = r if isinstance(r, str) else getattr(r, "oid", None)
        ctl.corrupt[side].discard(ro)
    if name in WRITES:
        ctl.npw += 1
        ctl.writes.append((idx, side, name, desc, ctl.step_no, ctl.attrib))
        if ctl.crash_at_pw is not None and ctl.crash_at_pw == ctl.npw:
            raise SimCrash("after provider write %d %s" % (ctl.npw, name))
    if fault and fault[1]:
        ctl.fired.append((idx, side, name, fault[0], True, ctl.step_no, _stack_sig()))
        if fault[0] == "disc":
            p.disconnect()
        raise FAULT_EXC[fault[0]]()
    return r


def _guarded(gen, ctl):
    """advance the provider's own events() generator with the 'nested call' depth raised, so that API calls the
    provider makes on itself while producing an event (the mock walks a folder renamed into the root) are not taken
    for engine calls: they are neither counted nor faulted"""
    while True:
        ctl.depth += 1
        try:
            e = next(gen)
        except StopIteration:
            return
        finally:
            ctl.depth -= 1
        yield e


def _engine_events(p, side, ctl, orig):
    """The event feed as the engine sees it: lazily forwarded (so the provider's cursor only advances past
    what was handed over), optionally cut short (split intake) or mangled (C14)."""
    take = ctl.event_take.pop(side, None)
    fail_after = ctl.event_fail.pop(side, None)
    if fail_after is not None:
        # the feed breaks after k events of this intake (connection drops mid-batch): the engine has applied k events
        # and the provider's read position stands after them
        n = 0
        p._latest_cursor = min(p._latest_cursor, p._cursor + fail_after)     # same device as the split intake below
        try:
            for e in _guarded(orig(), ctl):
                ctl.events_seen[side] += 1
                n += 1
                yield e
        finally:
            p._latest_cursor = len(p._events) - 1
        ctl.fired.append((ctl.ncalls, side, "events", "temp-midbatch", False, ctl.step_no, ""))
        raise ex.CloudTemporaryError("sim: event feed broke after %d events" % n)
    mangler = ctl.mangler.get(side)
    if mangler is not None:
        evs = list(_guarded(orig(), ctl))
        ctl.events_seen[side] += len(evs)
        yield from mangler(evs)
        return
    if take is not None:
        # "only the first k events have arrived so far": present a prefix of the feed by capping the
        # provider's latest cursor for the duration of this intake (never by abandoning its generator
        # half-way, which could lose an event the provider had already stepped over)
        p._latest_cursor = min(p._latest_cursor, p._cursor + take)
    try:
        for e in _guarded(orig(), ctl):
            ctl.events_seen[side] += 1
            yield e
    finally:
        if take is not None:
            p._latest_cursor = len(p._events) - 1


# ---------------------------------------------------------------------------------- trees
def read_tree(prov, root):
    """relpath -> ('d', None) | ('f', bytes), read only through the public Provider API.  root '' = the whole account."""
    info = prov.info_path(root or "/")
    if not info:
        return None
    out = {}

    def rec(oid, rel):
        for e in sorted(prov.listdir(oid), key=lambda e: e.name):
            r = rel + "/" + e.name
            if e.otype == DIRECTORY:
                out[r] = ("d", None)
                rec(e.oid, r)
            else:
                b = io.BytesIO()
                prov.download(e.oid, b)
                out[r] = ("f", b.getvalue())
    rec(info.oid, "")
    return out


def strip_conflicted(t):
    return {k: v for k, v in t.items() if ".conflicted" not in k}


def tree_str(t):
    if t is None:
        return "<no root>"
    return "{" + ", ".join("%s%s" % (k, "/" if v[0] == "d" else "=" + _short(v[1])) for k, v in sorted(t.items())) + "}"


def _short(b):
    s = b.decode("latin1")
    return s if len(s) <= 12 else s[:9] + "..%d" % len(s)


# ---------------------------------------------------------------------------------- engine subclass
class _Callbacks:
    """application callbacks owned by the harness (mixed into the real CloudSync / SmartCloudSync)"""
    world = None

    def handle_notification(self, notification):
        w = _Callbacks.world
        if w is not None:
            w.notes.append((w.ctl.step_no, notification.source.value, notification.ntype, notification.path))

    def resolve_conflict(self, f1, f2):
        w = _Callbacks.world
        if w is not None and w.resolver is not None:
            return w.resolver(f1, f2)
        return None

    def prioritize(self, side, path):
        w = _Callbacks.world
        if w is not None and w.prioritize is not None:
            return w.prioritize(side, path)
        return 0

    def translate(self, side, path):
        w = _Callbacks.world
        if w is not None and w.translate is not None:
            r = w.translate(self, side, path)
            if r is not NotImplemented:
                return r
        return CloudSync.translate(self, side, path)


class SimCS(_Callbacks, CloudSync):
    """The real CloudSync with the application callbacks owned by the harness."""


from cloudsync.smartsync import SmartCloudSync    # noqa: E402


class SimSmartCS(_Callbacks, SmartCloudSync):
    """The real SmartCloudSync (on-demand mode) with the application callbacks owned by the harness."""


MGR_NAMES = ("emgr0", "emgr1", "smgr")


class World:
    """cfg keys: flavour (name in FLAVOURS) | sides, roots, aging, ns, storage ('sim'), engine class."""

    engine_class = SimCS

    def __init__(self, cfg):
        det.reset_world_globals()
        self.cfg = cfg
        self.ctl = Ctl()
        self.roots = tuple(cfg.get("roots", ("/local", "/remote")))
        sides = cfg.get("sides") or FLAVOURS[cfg.get("flavour", "oo")]
        self.provs = []
        for i, (oip, csens, filt) in enumerate(sides):
            p = MockProvider(oid_is_path=bool(oip), case_sensitive=bool(csens), filter_events=bool(filt),
                             use_ns=bool(cfg.get("ns", True)))
            p.connection_id = "conn%d" % i
            p.connect(CREDS)
            self.provs.append(p)
        for p, r in zip(self.provs, self.roots):
            p.mkdirs(r)
        # content that exists before the engine is started for the first time; the providers' read positions are then
        # put at 'latest', as a freshly connected real provider has them (otherwise the mock would also replay the
        # creations as events and the initial walk would never matter)
        for side, op, *a in cfg.get("prepop", ()):
            user_op(self.provs[side], self.roots[side], op, a)
        if cfg.get("prepop"):
            for p in self.provs:
                p._cursor = p._latest_cursor
        for i, p in enumerate(self.provs):
            wrap_provider(p, i, self.ctl)
        self.sd = {}
        self.notes = []
        self.unhandled = []
        self.resolver = None
        self.prioritize = None
        self.translate = None
        self.log = []
        self.next_at = [0.0, 0.0, 0.0]
        self.generation = 0
        self.cs = None
        self.root_oids = None
        self.on_boot = None
        self.boot()

    # ---------------------------------------------------------------- engine lifecycle
    def boot(self):
        eventmod.EventManager._provider_guard.clear()
        for p in self.provs:
            if not p.connected:
                p.connect(CREDS)
        type(self).engine_class.world = self
        _Callbacks.world = self
        kw = {}
        if self.cfg.get("root_oids"):
            kw["root_oids"] = tuple(p.info_path(r).oid for p, r in zip(self.provs, self.roots))
        self.ctl.engine = True
        try:
            self.cs = type(self).engine_class(tuple(self.provs), roots=self.roots,
                                              storage=SimStorage(self.sd, self.ctl), **kw)
        finally:
            self.ctl.engine = False
        if self.cfg.get("aging") is not None:
            self.cs.aging = self.cfg["aging"]
        self.mgrs = (self.cs.emgrs[0], self.cs.emgrs[1], self.cs.smgr)
        self.next_at = [CLOCK.now] * 3
        self.generation += 1
        if self.on_boot:
            self.on_boot(self)

    def shutdown(self, graceful=True):
        """Stop the engine at a step boundary.  graceful: stop() + what Runnable.run's finally would do."""
        if graceful and self.cs is not None:
            self.ctl.engine = True
            try:
                self.cs.stop(forever=True, wait=False)
                self.cs.done()
            finally:
                self.ctl.engine = False
        self.cs = None
        for p in self.provs:
            # what a new process would find: a provider object with no volatile engine state
            p.disconnect()
            p._cursor = p._latest_cursor
            if not self.cfg.get("same_process"):
                # (cfg same_process: the application stops the engine and builds a new one around the SAME provider objects, which
                # still know their root: the new event managers then validate the root - and read storage - in their constructor)
                p._root_path = None
                p._root_oid = None
            p.sync_state = None

    def down(self, graceful=True):
        if self.cs is None:
            return False
        self.shutdown(graceful)
        for p in self.provs:        # the accounts stay reachable for their users while the engine is down
            p.connect(CREDS)
        return True

    def up(self, variant="intact"):
        """start a new engine over the same storage dict and the same two accounts.  variants: intact | nocursor
        (cursor rows removed) | badcursor (cursor rows hold a value the provider rejects) | nowalk (walk marker removed)"""
        if self.cs is not None:
            return False
        for tag in list(self.sd):
            if variant == "nocursor" and "_cursor_" in tag:
                self.sd[tag] = {}
            elif variant == "badcursor" and "_cursor_" in tag:
                for k in self.sd[tag]:
                    self.sd[tag][k] = "rejected-cursor"
            elif variant == "nowalk" and "_walked_" in tag:
                self.sd[tag] = {}
        for p in self.provs:
            p.disconnect()
            # a new connection reads the change feed from "now": what happened during the outage is only reachable through the
            # stored cursor (which the engine hands back to the provider) or through a walk
            p._cursor = p._latest_cursor
        self.boot()
        return True

    # ---------------------------------------------------------------- one engine step
    def step(self, which):
        """One iteration of Runnable.run's loop body for manager `which`, faithfully (A.2)."""
        mgr = self.mgrs[which]
        ctl = self.ctl
        ctl.step_no += 1
        if ctl.crash_at_sw is not None or ctl.crash_at_pw is not None:
            self.step_snap = {t: dict(v) for t, v in self.sd.items()}      # rows as they stood when this step began (C07's crash-instant invariant)
        if CLOCK.now < self.next_at[which]:
            CLOCK.now = self.next_at[which]
        CLOCK.now += 0.0005
        ctl.engine = True
        outcome = "ok"
        # the same recursion headroom for every engine step whoever calls it (generation and replay reach this point at different
        # stack depths; an engine recursion that runs away - there is at least one, see KF-KIDS-RECURSION - would otherwise
        # overflow at different places and leave different wreckage: found as a generate/replay mismatch in the thorough soak)
        depth = 0
        f = sys._getframe()
        while f is not None:
            depth += 1
            f = f.f_back
        old_limit = sys.getrecursionlimit()
        sys.setrecursionlimit(depth + int(os.environ.get("VERIF_HEADROOM", "900")))
        try:
            mgr._Runnable__clear_on_success = True
            try:
                mgr.do()
                if mgr._Runnable__clear_on_success and mgr.in_backoff > 0:
                    mgr.in_backoff = 0
            except runmod._BackoffError:
                mgr._Runnable__increment_backoff()
                outcome = "backoff"
            except SimCrash:
                raise
            except RecursionError as e:
                mgr._Runnable__increment_backoff()
                outcome = "exc"
                self.unhandled.append((ctl.step_no, MGR_NAMES[which], "RecursionError", _exc_site(e)))
            except Exception as e:      # Runnable.run: log.exception + backoff, loop goes on
                mgr._Runnable__increment_backoff()
                outcome = "exc"
                self.unhandled.append((ctl.step_no, MGR_NAMES[which], type(e).__name__, _exc_site(e)))
        finally:
            sys.setrecursionlimit(old_limit)
            ctl.engine = False
            ctl.depth = 0
        sleep = mgr.in_backoff if mgr.in_backoff > 0 else (0.1 if which == 2 else self.cs.sleep[which])
        self.next_at[which] = CLOCK.now + sleep
        self.drain_notifications()
        return outcome

    def drain_notifications(self):
        q = self.cs.nmgr._NotificationManager__queue
        while not q.empty():
            self.cs.nmgr.do()

    def busy(self):
        self.ctl.engine = True
        try:
            return bool(self.cs.busy)
        except ex.CloudException:
            return True
        finally:
            self.ctl.engine = False
            self.ctl.depth = 0

    def quiesce(self, cap=600, need_idle=3):
        """Faults off; step the three managers round-robin, letting ageing/punt/backoff delays elapse,
        until the engine reports nothing to do for `need_idle` consecutive rounds.  Returns the number of
        rounds used or None (non-quiescent within the budget)."""
        self.ctl.disarm()
        idle = 0
        for i in range(cap):
            for w in (0, 1, 2):
                self.step(w)
            CLOCK.now += 0.05
            if not self.busy():
                idle += 1
                if idle >= need_idle:
                    return i + 1
            else:
                idle = 0
        return None

    # ---------------------------------------------------------------- users
    def _as_user(self, p, fn):
        """users reach their account whatever state the engine's session is in: a provider the fault injector has
        disconnected is connected for the duration of the user's access and put back afterwards"""
        was = p.connected
        if not was:
            p.connect(CREDS)
        try:
            return fn()
        finally:
            if not was:
                p.disconnect()

    def tree(self, side):
        was = self.ctl.engine
        self.ctl.engine = False
        try:
            return self._as_user(self.provs[side], lambda: read_tree(self.provs[side], self.roots[side]))
        finally:
            self.ctl.engine = was

    def user(self, side, op, *a):
        """A user acting directly on provider `side` (no fault wrapper).  Paths are relative to the root.
        Returns (legal, destroyed_payloads)."""
        p = self.provs[side]
        root = self.roots[side]
        was = self.ctl.engine
        self.ctl.engine = False
        try:
            return self._as_user(p, lambda: user_op(p, root, op, a, ci_pair=any(not q.case_sensitive for q in self.provs)))
        finally:
            self.ctl.engine = was

    def user_abs(self, side, op, *a):
        """a user operation addressed by absolute account paths (may lie outside the sync root)"""
        p = self.provs[side]
        was = self.ctl.engine
        self.ctl.engine = False
        try:
            return self._as_user(p, lambda: user_op(p, "", op, a))
        finally:
            self.ctl.engine = was

    def account_tree(self, side):
        was = self.ctl.engine
        self.ctl.engine = False
        try:
            return self._as_user(self.provs[side], lambda: read_tree(self.provs[side], ""))
        finally:
            self.ctl.engine = was

    # ---------------------------------------------------------------- observation
    def storage_rows(self):
        out = {}
        for tag, rows in sorted(self.sd.items()):
            for eid, raw in sorted(rows.items()):
                if isinstance(raw, (bytes, bytearray)):
                    try:
                        out[(tag, eid)] = msgpack.loads(raw, use_list=False, raw=False)
                    except Exception:
                        out[(tag, eid)] = raw
                else:
                    out[(tag, eid)] = raw
        return out

    def digest(self):
        t0, t1 = self.tree(0), self.tree(1)
        h = hashlib.sha256()
        h.update(repr((self.log, sorted((t0 or {}).items()), sorted((t1 or {}).items()),
                       sorted(self.storage_rows().items(), key=repr), self.ctl.ncalls, self.ctl.npw, self.ctl.nsw,
                       round(CLOCK.now, 6), [(a, b, c.value, d) for a, b, c, d in self.notes])).encode())
        return h.hexdigest()[:16]


def _exc_site(e):
    tb = traceback.extract_tb(e.__traceback__)
    for fs in reversed(tb):
        if "/cloudsync/" in fs.filename:
            return "%s:%s" % (os.path.basename(fs.filename), fs.name)
    return "%s:%s" % (os.path.basename(tb[-1].filename), tb[-1].name) if tb else "?"


# ---------------------------------------------------------------------------------- user operations
def _is_under(parent, path):
    return path == parent or path.startswith(parent + "/")


def user_op(p, root, op, a, ci_pair=False):
    """Perform op if it is a legal user operation on the provider's current tree.  Legality is decided on
    the tree read through the public API, not by catching provider errors, so that a deleted plan item
    never changes what the remaining items mean.  Returns (performed, [payloads this op destroyed])."""
    t = read_tree(p, root)
    if t is None:
        return False, []

    # names that differ only in case count as the same name if EITHER side of the pair is case-insensitive: a pair with a
    # case-insensitive member cannot hold both, so such a history has no converged state to reach
    ci = ci_pair or not getattr(p, "case_sensitive", True)
    folded = {k.lower(): k for k in t} if ci else {}

    def kind(rel):
        if rel == "":
            return "d"
        v = t.get(rel)
        if v:
            return v[0]
        if ci and rel.lower() in folded:
            return "x"      # occupied under another spelling (case-insensitive provider): neither free nor addressable as typed
        return None

    def parent(rel):
        return rel.rsplit("/", 1)[0]

    def oid(rel):
        return p.info_path(root + rel).oid

    destroyed = []
    if op == "create":
        rel, data = a
        if kind(rel) is not None or kind(parent(rel)) != "d":
            return False, []
        p.create(root + rel, io.BytesIO(data.encode() if isinstance(data, str) else data))
    elif op == "write":
        rel, data = a
        if kind(rel) != "f":
            return False, []
        destroyed.append(t[rel][1])
        p.upload(oid(rel), io.BytesIO(data.encode() if isinstance(data, str) else data))
    elif op == "delete":
        rel, = a
        if kind(rel) != "f":
            return False, []
        destroyed.append(t[rel][1])
        p.delete(oid(rel))
    elif op == "rename":
        src, dst = a
        case_only = ci and src != dst and src.lower() == dst.lower() and dst not in t
        if kind(src) != "f" or src == dst or (kind(dst) is not None and not case_only) or kind(parent(dst)) != "d":
            return False, []
        p.rename(oid(src), root + dst)
    elif op == "mkdir":
        rel, = a
        if kind(rel) is not None or kind(parent(rel)) != "d":
            return False, []
        p.mkdir(root + rel)
    elif op == "rmdir":
        rel, = a
        if kind(rel) != "d" or rel == "" or any(_is_under(rel, k) and k != rel for k in t):
            return False, []
        p.delete(oid(rel))
    elif op == "rmtree":
        rel, = a
        if kind(rel) != "d" or rel == "":
            return False, []
        for k, v in t.items():
            if _is_under(rel, k) and v[0] == "f":
                destroyed.append(v[1])
        p.rmtree(oid(rel))
    elif op == "rename_dir":
        src, dst = a
        case_only = ci and src != dst and src.lower() == dst.lower() and dst not in t
        if case_only and kind(src) == "d" and kind(parent(dst)) == "d":
            p.rename(oid(src), root + dst)
            return True, destroyed
        if kind(src) != "d" or src == "" or _is_under(src, dst) or kind(parent(dst)) != "d":
            return False, []
        if _is_under(src, parent(dst)):
            return False, []
        dk = kind(dst)
        if dk in ("f", "x"):
            return False, []
        if dk == "d" and any(_is_under(dst, k) and k != dst for k in t):
            return False, []
        p.rename(oid(src), root + dst)
    else:
        raise HarnessError("unknown user op %r" % (op,))
    return True, destroyed
