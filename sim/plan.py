"""Plans (DESIGN 3.2): explicit, replayable lists of items; executed against a World by Exec;
generated *while executing* so that every user operation is legal and meaningful.

items (JSON lists):
  ["U", side, op, *args]     user operation, paths relative to the sync root
  ["S", which]               one engine step: 0 = event intake local, 1 = event intake remote, 2 = sync step
  ["T", dt]                  advance the virtual clock
  ["Q"]                      run the engine to quiet (eager schedule)
  ["E", side, k]             split intake: the next event intake of `side` is handed at most k events
  ["R", variant]             stop the engine at this step boundary and start a new one (C06)
  ["X", name, *args]         property-specific action, dispatched to exec.actions[name]
"""
import random

from .world import World, SimCrash, HarnessError, read_tree, strip_conflicted, tree_str
from .det import CLOCK

NAMES_F = ("a", "b", "c.txt")
NAMES_D = ("d1", "d2")


class Exec:
    def __init__(self, cfg, world_cls=World):
        self.world = world_cls(cfg)
        self.cfg = cfg
        self.plan = []               # items actually applied (the recorded, replayable plan)
        self.monitors = []           # callables(exec, item) after every engine step; raise Violation
        self.actions = {}
        self.written = {}            # payload bytes -> (side, plan index)
        self.destroyed = set()       # payload bytes a user destroyed
        self.n_user = 0
        self.n_steps = 0
        self.steps_between_users = 0
        self._seen_user = False
        self.quiet_rounds = []
        self.nonquiescent = False
        self.payload_ctr = 0

    # ------------------------------------------------------------ applying items
    def apply(self, item, record=True):
        w = self.world
        k = item[0]
        performed = True
        if k in ("S", "Q", "E") and w.cs is None:
            return False                      # the engine is down
        if k == "S":
            out = w.step(item[1])
            self.n_steps += 1
            if self._seen_user:
                self.steps_between_users += 1
            w.log.append(("S", item[1], out, w.ctl.ncalls, w.ctl.npw, w.ctl.nsw))
        elif k == "U":
            _, side, op, *a = item
            performed, destroyed = w.user(side, op, *a)
            if performed:
                self.n_user += 1
                self._seen_user = True
                for d in destroyed:
                    self.destroyed.add(d)
                if op in ("create", "write"):
                    data = a[1].encode() if isinstance(a[1], str) else a[1]
                    self.written[data] = (side, len(self.plan))
                w.log.append(("U", side, op, tuple(a)))
        elif k == "A":
            _, side, op, *a = item
            performed, destroyed = w.user_abs(side, op, *a)
            if performed:
                self.n_user += 1
                self._seen_user = True
                for d in destroyed:
                    self.destroyed.add(d)
                if op in ("create", "write"):
                    data = a[1].encode() if isinstance(a[1], str) else a[1]
                    self.written[data] = (side, len(self.plan))
                w.log.append(("A", side, op, tuple(a)))
        elif k == "T":
            CLOCK.advance(item[1])
        elif k == "Q":
            r = w.quiesce(cap=item[1] if len(item) > 1 else 600)
            if r is None:
                self.nonquiescent = True
            else:
                self.quiet_rounds.append(r)
            w.log.append(("Q", r))
        elif k == "E":
            if len(item) > 3 and item[3] == "fail":
                w.ctl.event_fail[item[1]] = item[2]
            else:
                w.ctl.event_take[item[1]] = item[2]
        elif k == "R":
            if item[1] == "down":
                performed = w.down(graceful=(len(item) < 3 or item[2] != "kill"))
            else:
                performed = w.up(item[2] if len(item) > 2 else "intact")
            if performed:
                w.log.append(("R",) + tuple(item[1:]))
        elif k == "X":
            try:
                performed = self.actions[item[1]](self, *item[2:])
            except Exception:
                # an action that judges (and raises a Violation) is part of the history: without it the replay would stop short
                if record:
                    self.plan.append(list(item))
                raise
            if performed is None:
                performed = True
        else:
            raise HarnessError("unknown plan item %r" % (item,))
        if record and performed:
            self.plan.append(list(item))
        if k in ("S", "Q", "R", "X"):
            for m in self.monitors:
                m(self, item)
        return performed

    def run(self, plan):
        for it in plan:
            self.apply(it)

    def epilogue(self, cap=600):
        """faults off, run round-robin to quiet"""
        if self.world.cs is None:
            self.world.up("intact")
        r = self.world.quiesce(cap=cap)
        if r is None:
            self.nonquiescent = True
        else:
            self.quiet_rounds.append(r)
        self.world.log.append(("Q", r))
        for m in self.monitors:
            m(self, ["Q"])
        return r

    def new_payload(self):
        self.payload_ctr += 1
        return "v%d" % self.payload_ctr


# ------------------------------------------------------------------ generation
DEFAULT_MIX = {"create": 3, "mkdir": 2, "write": 2, "delete": 2, "rename": 2, "rmtree": 1, "rmdir": 1, "rename_dir": 2}


def _swap_pairs(files):
    fs = sorted(files)
    return [(x, y) for i, x in enumerate(fs) for y in fs[i + 1:] if x.rsplit("/", 1)[0] == y.rsplit("/", 1)[0]
            and not x.endswith("/t") and not y.endswith("/t")]


def expand_op(op, tree):
    """a proposed op as the list of primitive user ops it stands for ('swap' = three renames through a temporary name)"""
    if op[0] != "swap":
        return [op]
    a, b = op[1], op[2]
    tmp = a.rsplit("/", 1)[0] + "/t"
    if tmp in tree:
        return []
    return [("rename", a, tmp), ("rename", b, a), ("rename", tmp, b)]


def propose(rng, tree, mix, payload, names_f=NAMES_F, names_d=NAMES_D, prefix=""):
    """Propose one legal-looking user op on `tree` (relpath -> kind).  prefix restricts to a subtree
    (C04's partitions).  Returns the op tuple (op, *args) or None."""
    def inside(k):
        return prefix == "" or k == prefix or k.startswith(prefix + "/")
    dirs = ([""] if prefix == "" else []) + [k for k, v in tree.items() if v[0] == "d" and inside(k)]
    files = [k for k, v in tree.items() if v[0] == "f" and inside(k)]
    ops = []
    for op, wgt in mix.items():
        if wgt <= 0:
            continue
        if op in ("create", "mkdir") and not dirs:
            continue
        if op in ("write", "delete", "rename") and not files:
            continue
        if op == "recase" and not (files or [d for d in dirs if d != prefix]):
            continue
        if op == "swap" and not _swap_pairs(files):
            continue
        if op in ("rmtree", "rmdir", "rename_dir") and len([d for d in dirs if d != prefix]) < 1:
            continue
        ops += [op] * wgt
    if not ops:
        return None
    op = rng.choice(ops)
    sub = [d for d in dirs if d != prefix]
    if op == "create":
        return ("create", rng.choice(dirs) + "/" + rng.choice(names_f), payload())
    if op == "mkdir":
        return ("mkdir", rng.choice(dirs) + "/" + rng.choice(names_d))
    if op == "write":
        return ("write", rng.choice(files), payload())
    if op == "delete":
        return ("delete", rng.choice(files))
    if op == "swap":
        # two files of one folder exchange their names through a temporary name (expanded into three renames by gen_history)
        a, b = rng.choice(_swap_pairs(files))
        return ("swap", a, b)
    if op == "rename":
        return ("rename", rng.choice(files), rng.choice(dirs) + "/" + rng.choice(names_f))
    if op == "rmtree":
        return ("rmtree", rng.choice(sub))
    if op == "rmdir":
        return ("rmdir", rng.choice(sub))
    if op == "recase":
        # a rename that changes nothing but the capitalisation of the last component
        cands = files + sub
        if not cands:
            return None
        x = rng.choice(cands)
        head, leaf = x.rsplit("/", 1)
        if leaf.swapcase() == leaf:
            return None
        return ("rename" if tree[x][0] == "f" else "rename_dir", x, head + "/" + leaf.swapcase())
    if op == "rename_dir":
        d = rng.choice(sub)
        cands = [x for x in dirs if not (x == d or x.startswith(d + "/"))]
        if not cands:
            return None
        return ("rename_dir", d, rng.choice(cands) + "/" + rng.choice(names_d))
    return None


STYLES = ("eager", "batched", "bursty", "split")


def gen_history(rng, ex, nops, sides=(0, 1), style="batched", mix=None, maxsteps=3, prefixes=None, midfail=0.0):
    """Generate-and-execute a user history on `ex` in the given schedule style.  prefixes: side -> subtree
    prefix that side's user is confined to (disjoint partitions)."""
    mix = mix or DEFAULT_MIX
    w = ex.world
    tries = 0
    done = 0
    while done < nops and tries < nops * 6:
        tries += 1
        side = rng.choice(sides)
        t = w.tree(side)
        if t is None:
            break
        prefix = prefixes[side] if prefixes else ""
        op = propose(rng, t, mix, ex.new_payload, prefix=prefix)
        if op is None:
            continue
        steps = expand_op(op, t)
        if not steps:
            continue
        ok = True
        for k, one in enumerate(steps):
            if not ex.apply(["U", side] + list(one)):
                ok = False
                break
            if k < len(steps) - 1:
                _after_op(rng, ex, style, maxsteps, midfail)
        if not ok:
            continue
        done += 1
        _after_op(rng, ex, style, maxsteps, midfail)
    return done


def _after_op(rng, ex, style, maxsteps, midfail):
    if True:
        if style == "eager":
            ex.apply(["Q"])
        elif style == "batched":
            for _ in range(rng.randrange(0, maxsteps + 1)):
                ex.apply(["S", rng.randrange(3)])
        elif style == "split":
            for _ in range(rng.randrange(0, maxsteps + 2)):
                wh = rng.randrange(3)
                if wh < 2 and rng.random() < 0.6:
                    if midfail and rng.random() < midfail:
                        ex.apply(["E", wh, rng.randrange(0, 3), "fail"])
                    else:
                        ex.apply(["E", wh, rng.randrange(1, 3)])
                ex.apply(["S", wh])
            if rng.random() < 0.15:
                ex.apply(["T", rng.choice([0.001, 0.003, 0.02])])
        elif style == "bursty":
            pass


# ------------------------------------------------------------------ shapes (for distinct counting / findings)
def canon_user_ops(plan):
    """history shape: user ops with names abstracted by first appearance, payloads dropped"""
    m = {}

    def ab(path):
        parts = [x for x in path.split("/") if x]
        out = []
        for p in parts:
            if p not in m:
                m[p] = "n%d" % len(m)
            out.append(m[p])
        return "/" + "/".join(out)
    sig = []
    for it in plan:
        if it[0] in ("U", "A"):
            _, side, op, *a = it
            paths = [ab(x) for x in a if isinstance(x, str) and x.startswith("/")]
            sig.append("%d:%s%s(%s)" % (side, "abs-" if it[0] == "A" else "", op, ",".join(paths)))
        elif it[0] == "R":
            sig.append("R:" + ":".join(str(x) for x in it[1:]))
        elif it[0] == "X":
            sig.append("%s:%s" % (it[0], it[1]))
    return " ".join(sig)


def schedule_sig(plan):
    out = []
    for it in plan:
        if it[0] == "S":
            out.append(str(it[1]))
        elif it[0] in ("U", "A"):
            out.append("u")
        elif it[0] == "Q":
            out.append("q")
        elif it[0] == "E":
            out.append(("x%d" if len(it) > 3 else "e%d") % it[2])
        elif it[0] == "T":
            out.append("t")
        else:
            out.append(it[0].lower())
    return "".join(out)
