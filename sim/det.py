"""Bootstrap + determinism seams.

Importing this module
  * puts the repository under test (VERIF_REPO, default /repo) first on sys.path and refuses to run
    against the copy of cloudsync installed in /venv's site-packages;
  * owns every source of nondeterminism listed in DESIGN.md section 2 for the step driver:
    the clock (module-level ``time`` of each cloudsync module), object identity used as data
    (MockFSObject.oid, SyncEntry/MockFSObject hashing), os.urandom / tempfile names, the process-global
    provider guard, SyncState.shuffle randomness.
Nothing in /repo is edited: only module-level names are rebound.
"""
import os
import sys
import itertools
import logging
import shutil
import tempfile as _real_tempfile
import warnings

REPO = os.path.abspath(os.environ.get("VERIF_REPO", "/repo"))
if sys.path[0] != REPO:
    sys.path.insert(0, REPO)
warnings.filterwarnings("ignore")

import cloudsync  # noqa: E402

if not os.path.abspath(cloudsync.__file__).startswith(REPO + os.sep):
    raise SystemExit("HARNESS: cloudsync imported from %s, not from %s" % (cloudsync.__file__, REPO))

from cloudsync import event as eventmod, runnable as runmod, provider as provmod, smartsync as ssmod  # noqa: E402
from cloudsync import utils as utilsmod, long_poll as lpmod, notification as notifmod  # noqa: E402
from cloudsync.sync import state as statemod, manager as mgrmod  # noqa: E402
from cloudsync.providers import mock as mockmod  # noqa: E402

_LOG_SINK = None


def quiet_logging():
    logging.disable(logging.CRITICAL)


class _NullHandler(logging.Handler):
    """DEBUG sink: formats every record (so eagerly evaluated logging arguments and %-formatting, where
    the debug_sig defect lived, keep being exercised) but keeps nothing and reads no clock."""
    def emit(self, record):
        try:
            record.getMessage()
        except Exception:   # a formatting error in a log call is not what is being checked
            pass


def debug_logging():
    global _LOG_SINK
    logging.disable(logging.NOTSET)
    root = logging.getLogger()
    if _LOG_SINK is None:
        _LOG_SINK = _NullHandler()
        for h in list(root.handlers):
            root.removeHandler(h)
        root.addHandler(_LOG_SINK)
    root.setLevel(5)


quiet_logging()


# ------------------------------------------------------------------ clock
class VClock:
    """The only clock cloudsync sees in the step driver.  sleep() advances virtual time."""
    T0 = 1_000_000.0

    def __init__(self):
        self.now = self.T0
        self.slept = 0.0

    def reset(self):
        self.now = self.T0
        self.slept = 0.0

    def time(self):
        return self.now

    def monotonic(self):
        return self.now

    def sleep(self, secs):
        if secs and secs > 0:
            self.now += secs
            self.slept += secs

    def advance(self, secs):
        if secs > 0:
            self.now += secs


CLOCK = VClock()
TIME_MODULES = (statemod, mgrmod, eventmod, runmod, provmod, ssmod, mockmod, utilsmod, lpmod)


def install_clock(clock):
    for m in TIME_MODULES:
        m.time = clock


install_clock(CLOCK)


# ------------------------------------------------------------------ identity / counters
class Counters:
    oid = itertools.count(1)
    ent = itertools.count(1)
    fso = itertools.count(1)
    rnd = itertools.count(1)
    tmp = itertools.count(1)

    @classmethod
    def reset(cls):
        cls.oid = itertools.count(1)
        cls.ent = itertools.count(1)
        cls.fso = itertools.count(1)
        cls.rnd = itertools.count(1)
        cls.tmp = itertools.count(1)


_orig_fso_init = mockmod.MockFSObject.__init__


def _fso_init(self, path, object_type, oid_is_path, hash_func, contents=None, mtime=None):
    _orig_fso_init(self, path, object_type, oid_is_path, hash_func, contents, mtime)
    self._vserial = next(Counters.fso)
    if not oid_is_path:
        self.oid = "o%d" % next(Counters.oid)


mockmod.MockFSObject.__init__ = _fso_init
mockmod.MockFSObject.__hash__ = lambda self: self._vserial

_orig_ent_init = statemod.SyncEntry.__init__


def _ent_init(self, *a, **kw):
    object.__setattr__(self, "_vserial", next(Counters.ent))
    _orig_ent_init(self, *a, **kw)


statemod.SyncEntry.__init__ = _ent_init
statemod.SyncEntry.__hash__ = lambda self: self._vserial


# ------------------------------------------------------------------ os / tempfile seams
class _OsProxy:
    """module-level ``os`` of manager.py / mock.py: everything real except urandom."""
    def __init__(self, real):
        self._real = real

    def __getattr__(self, k):
        return getattr(self._real, k)

    @staticmethod
    def urandom(n):
        v = next(Counters.rnd)
        return v.to_bytes(n, "big")


class _TmpProxy:
    def __init__(self, real):
        self._real = real

    def __getattr__(self, k):
        return getattr(self._real, k)

    @staticmethod
    def mkdtemp(suffix="", prefix="tmp", dir=None):     # pylint: disable=redefined-builtin
        name = "td%d%s" % (next(Counters.tmp), suffix)
        os.mkdir(name)
        return name             # relative to the worker's scratch cwd: identical in every process

    def gettempdir(self):
        return "."


mgrmod.os = _OsProxy(os)
mockmod.os = _OsProxy(os)
utilsmod.os = _OsProxy(os)
mgrmod.tempfile = _TmpProxy(_real_tempfile)
utilsmod.tempfile = _TmpProxy(_real_tempfile)

_SCRATCH = None


def scratch_root():
    """Per-process scratch directory; the process chdir()s into it so that temp names are relative and
    byte-identical across processes.  Removed at exit."""
    global _SCRATCH
    if _SCRATCH is None or _SCRATCH[0] != os.getpid():
        base = os.environ.get("VERIF_SCRATCH") or ("/dev/shm" if os.path.isdir("/dev/shm") and os.access("/dev/shm", os.W_OK) else _real_tempfile.gettempdir())
        d = _real_tempfile.mkdtemp(prefix="csverif-%d-" % os.getpid(), dir=base)
        _SCRATCH = (os.getpid(), d)
        os.chdir(d)
        import atexit
        atexit.register(_cleanup, os.getpid(), d)
    return _SCRATCH[1]


def _cleanup(pid, d):
    if os.getpid() == pid:
        try:
            os.chdir("/")
        except OSError:
            pass
        shutil.rmtree(d, ignore_errors=True)


def reset_world_globals():
    """Called at the start of every simulated run."""
    d = scratch_root()
    for name in os.listdir(d):
        p = os.path.join(d, name)
        if os.path.isdir(p):
            shutil.rmtree(p, ignore_errors=True)
        else:
            try:
                os.unlink(p)
            except OSError:
                pass
    Counters.reset()
    CLOCK.reset()
    eventmod.EventManager._provider_guard.clear()
