"""Known findings (DESIGN 4.2): committed file, never written at run time.  A violation is attributed to a
finding only if its property, violation class, configuration constraint and matcher (a history pattern or a
mechanism predicate evaluated on the *minimised* failing case) all agree; anything else is a VIOLATION."""
import json
import os

VERIF = os.path.dirname(os.path.dirname(os.path.abspath(__file__)))
_PATH = os.path.join(VERIF, "known_findings.json")
_DOC = None


def _doc():
    global _DOC
    if _DOC is None:
        try:
            _DOC = json.load(open(_PATH))
        except FileNotFoundError:
            _DOC = {"findings": []}
    return _DOC


def open_for(prop_id):
    return [f for f in _doc()["findings"] if f.get("status") == "open" and prop_id in f["properties"]]


def fixed_for(prop_id):
    return [f for f in _doc()["findings"] if f.get("status") == "fixed" and prop_id in f["properties"]]


def by_id(fid):
    for f in _doc()["findings"]:
        if f["id"] == fid:
            return f
    return None


def _quiet(it):
    """plan items at which the engine has run until it had nothing left to do"""
    return bool(it) and (it[0] == "Q" or (it[0] == "X" and it[1] in ("settle", "quiet_restart")))


def user_ops(case):
    return [it for it in case.get("plan", []) if it and it[0] == "U"]


# ---- matchers -------------------------------------------------------------------------------------
def m_history(f, case, viol):
    """pattern: {"ops_all": [...op names that must all occur...], "ops_any": [...], "styles": [...],
                 "flavours": [...], "detail_re": regex on violation detail}"""
    import re
    pat = f.get("pattern", {})
    ops = [u[2] for u in user_ops(case)]
    if any(o not in ops for o in pat.get("ops_all", [])):
        return False
    if pat.get("ops_any") and not any(o in ops for o in pat["ops_any"]):
        return False
    if pat.get("styles") and case.get("style") not in pat["styles"]:
        return False
    if pat.get("flavours") and case.get("cfg", {}).get("flavour") not in pat["flavours"]:
        return False
    if pat.get("families") and case.get("family") not in pat["families"]:
        return False
    if pat.get("detail_re") and not re.search(pat["detail_re"], str(viol.get("detail", ""))):
        return False
    if pat.get("mech_re") and not re.search(pat["mech_re"], str(viol.get("mech", ""))):
        return False
    return True


def _related(p, q):
    return p == q or p.startswith(q + "/") or q.startswith(p + "/")


def _unconf(p):
    """strip the engine's '.conflicted[N]' decoration from every path component"""
    import re
    return re.sub(r"\.conflicted\d*", "", p)


def _op_paths(u):
    return [x for x in u[3:] if isinstance(x, str) and x.startswith("/")]


def _unquiesced_related(case, is_trigger, other_side_only=False):
    """True iff some trigger op (e.g. a rename) and some *other* user op on a related path (equal, ancestor or
    descendant of one of the trigger's paths) are applied without the engine having gone quiet in between
    (no 'Q' item between them) - i.e. the schedule is not 'eager' around the trigger.  Returns the set of
    trigger paths, or None."""
    plan = case.get("plan", [])
    roots = tuple(case.get("cfg", {}).get("roots", ("/local", "/remote")))

    def rel_paths(u):
        # 'A' items (C12) address the account: only their paths inside the side's root count, made root-relative
        if u[0] == "U":
            return _op_paths(u)
        r = roots[u[1]]
        return [q[len(r):] for q in _op_paths(u) if q.startswith(r + "/")]
    users = [(i, it) for i, it in enumerate(plan) if it and it[0] == "U"]
    others = [(i, it) for i, it in enumerate(plan) if it and it[0] in ("U", "A")]
    out = set()
    for i, t in users:
        if not is_trigger(t):
            continue
        tp = _op_paths(t)
        for j, u in others:
            if j == i:
                continue
            lo, hi = min(i, j), max(i, j)
            if any(_quiet(it) for it in plan[lo + 1:hi]):
                continue
            if other_side_only and (u[1] == t[1] or u[2] == "write"):
                continue        # (contention for a NAME: the other user's create / delete / rename; an edit of the file is not)
            if any(_related(_unconf(p), _unconf(q)) for p in tp for q in rel_paths(u)):
                out.update(tp)      # ('x.conflicted' is a version of x: an operation on one is related to an operation on the other)
    return out or None


def _diff_paths(viol):
    if viol.get("paths") is not None:
        return list(viol["paths"])
    out = []
    for seg in str(viol.get("detail", "")).split("; "):
        seg = seg.strip()
        if seg.startswith("/"):
            out.append(seg.split(" ")[0])
    return out


def m_rename_race(f, case, viol):
    """mechanism: a rename (file or folder) that is *necessary* for the failure (it survives 1-minimisation) and
    another user operation on a related path happen before the engine has gone quiet in between; every differing
    path is (a '.conflicted' variant of) a source/destination of such a rename or lies under/above one."""
    if not m_history(f, case, viol):
        return False
    rp = _unquiesced_related(case, lambda u: u[2] in ("rename", "rename_dir"))
    if not rp:
        return False
    if _file_only_stable_ids(case):
        # Narrowed (hour 12, after 8 x 60 000 surveyed runs): in histories without any folder operation, on pairs whose ids are
        # stable on both sides, case-sensitive, with an unmangled event feed, the unchanged engine only ever failed when the
        # operation racing with the rename was the OTHER user's create/delete/rename (contention for one name) or when one user re-used a name a
        # rename had just vacated (name swap).  One user's other renames/edits/deletes of files converge on the unchanged tree and
        # are therefore not covered by this finding.
        rp = (_unquiesced_related(case, lambda u: u[2] == "rename", other_side_only=True) or set()) | _vacated_name_reuse(case)
        if not rp:
            return False
        rp = _rename_closure(case, rp)      # the contended object's other names (b -> c -> a: a difference may show under b)
    if viol["cls"] in ("nonquiescent",):
        return True
    paths = _diff_paths(viol)
    return bool(paths) and all(any(_related(_unconf(p), q) for q in rp) for p in paths)


def _vacated_name_reuse(case):
    """paths of same-user rename pairs in which the later rename's destination is the name the earlier one vacated (a -> t,
    b -> a: the pattern of a name swap), with no quiet point in between.  The unchanged engine fails on these too (about 1 in
    7 000 one-sided runs once the generator produced swaps): the engine parks one of the user's files as '.conflicted'."""
    plan = case.get("plan", [])
    rn = [(i, it) for i, it in enumerate(plan) if it and it[0] == "U" and it[2] == "rename"]
    out = set()
    for i, r1 in rn:
        for j in range(i + 1, len(plan)):
            r2 = plan[j]
            if _quiet(r2):
                break
            if not (r2 and r2[0] == "U" and r2[1] == r1[1]):
                continue
            # a new object takes the name the rename has just vacated: by another rename (swap) or by a creation
            if (r2[2] == "rename" and r2[4] == r1[3]) or (r2[2] == "create" and r2[3] == r1[3]):
                out.update(_op_paths(r1))
                out.update(_op_paths(r2))
    return out


def _file_only_stable_ids(case):
    ops = [it for it in case.get("plan", []) if it and it[0] in ("U", "A")]
    if any(o[2] in ("mkdir", "rename_dir", "rmtree", "rmdir") for o in ops):
        return False
    flav = str(case.get("cfg", {}).get("flavour", ""))
    if "_" in flav or "p" in flav or not flav:
        return False
    if case.get("rates") or case.get("crash") or case.get("faults"):
        return False            # mangled feeds (C14), crash runs (C07) and fault runs (C10) keep the wide pattern
    return True


def m_dirdelete_race(f, case, viol):
    """mechanism: a folder delete and another user operation on a related path (or a folder created on the same
    side: path-style ids take delete+mkdir, both 'hash' None, for a rename) without quiet in between."""
    if not m_history(f, case, viol):
        return False
    if any(u[2] in ("rename", "rename_dir") for u in user_ops(case)):
        return False
    plan = case.get("plan", [])
    dels = [(i, it) for i, it in enumerate(plan) if it and it[0] == "U" and it[2] in ("rmdir", "rmtree")]
    rel = set()
    for i, d in dels:
        for j, u in enumerate(plan):
            if j == i or not u or u[0] != "U":
                continue
            lo, hi = min(i, j), max(i, j)
            if any(_quiet(it) for it in plan[lo + 1:hi]):
                continue
            if u[2] == "mkdir" or any(_related(d[3], q) for q in _op_paths(u)):
                rel.add(d[3])
                rel.update(_op_paths(u))
    if not rel:
        return False
    if viol["cls"] in ("nonquiescent",):
        return True
    paths = _diff_paths(viol)
    return bool(paths) and all(any(_related(_unconf(p), q) for q in rel) for p in paths)


def m_dup_folder_discard(f, case, viol):
    """mechanism (manager.mkdir_synced: "these we can toss ... keep the current one, since it exists for sure"): a folder path P
    exists as two entries because P was made twice (by both users, or deleted and made again) and the engine has not been quiet
    in between; when the entry of the folder that no longer exists is looked at first, the live, already paired entry is
    discarded, and a later delete of P on that pair is ignored.  History: no rename; >= 2 mkdir of one path P and >= 1
    rmtree/rmdir of P with no quiet point anywhere between the first and the last of them; every differing path is P or below."""
    ops = user_ops(case)
    plan = case.get("plan", [])
    ci = "_" in str(case.get("cfg", {}).get("flavour", ""))     # a pair with a case-insensitive side: d1 and D1 are one name

    def fold(x):
        return x.lower() if ci else x
    cands = set()
    for P in set(fold(u[3]) for u in ops if u[2] == "mkdir"):
        idx = [i for i, it in enumerate(plan) if it and it[0] == "U" and fold(it[3]) == P and it[2] in ("mkdir", "rmtree", "rmdir")]
        mk = [i for i in idx if plan[i][2] == "mkdir"]
        dl = [i for i in idx if plan[i][2] != "mkdir"]
        if len(mk) >= 2 and dl and not any(_quiet(it) for it in plan[idx[0]:idx[-1]]):
            cands.add(P)
        # the folder is deleted and made again without a quiet point in between (the first creation may be long synchronised)
        for d in dl:
            later = [m for m in mk if m > d]
            if later and not any(_quiet(it) for it in plan[d:later[0]]):
                cands.add(P)
    if ci:
        # third form, pairs with a case-insensitive side only (thorough soak, C06 seed 7): the folder was made by BOTH users before the
        # engine was quiet (two entries for one name) and is renamed later - even after a quiet point: the rename is applied to
        # one of the two entries only and the other re-creates the old name.  Differences may show under the rename's other name.
        for P in set(fold(u[3]) for u in ops if u[2] == "mkdir"):
            mk = [(i, it) for i, it in enumerate(plan) if it and it[0] == "U" and it[2] == "mkdir" and fold(it[3]) == P]
            if len(set(it[1] for _, it in mk)) == 2 and not any(_quiet(x) for x in plan[mk[0][0]:mk[-1][0]]):
                for it in plan[mk[-1][0]:]:
                    if it and it[0] == "U" and it[2] == "rename_dir" and P in (fold(it[3]), fold(it[4])):
                        cands.add(P)
                        cands.add(fold(it[3]))
                        cands.add(fold(it[4]))
    if not cands:
        return False
    if viol["cls"] == "nonquiescent":
        return True
    paths = _diff_paths(viol)
    return bool(paths) and all(any(fold(_unconf(p)) == c or fold(_unconf(p)).startswith(c + "/") for c in cands) for p in paths)


def m_conflicted_blocks_rmdir(f, case, viol):
    """mechanism: both users wrote the same file P below folder D before the engine was quiet (=> one version is parked as
    'P.conflicted' on one side only, by design never synchronised), and later D (or an ancestor) is deleted on the side that
    does not hold the parked copy: the engine can never remove D on the other side (it is not empty), re-queues the delete, looks
    at the parked file, finishes it, and starts over - for ever.  History: rmtree/rmdir of D preceded by create/write of one path
    below D from both sides; the run never goes quiet (or differs only below D)."""
    ops = user_ops(case)
    cands = set()
    for i, u in enumerate(ops):
        if u[2] in ("rmtree", "rmdir"):
            D = u[3]
            both = {}
            for v in ops[:i]:
                if v[2] in ("create", "write") and v[3].startswith(D + "/"):
                    both.setdefault(v[3], set()).add(v[1])
            if any(len(sd) == 2 for sd in both.values()):
                cands.add(D)
    # second form (C06 seed 22 of the 250 000-run surveys): the OTHER user has put a new object below D and the engine has not been
    # quiet since - the delete of D meets a child the state does not know (yet); same loop
    plan = case.get("plan", [])
    for i, u in enumerate(plan):
        if u and u[0] == "U" and u[2] in ("rmtree", "rmdir"):
            D = u[3]
            for j in range(i - 1, -1, -1):
                v = plan[j]
                if _quiet(v):
                    break
                if v and v[0] == "U" and v[1] != u[1] and v[2] in ("create", "mkdir") and v[3].startswith(D + "/"):
                    cands.add(D)
    if not cands:
        return False
    if viol["cls"] == "nonquiescent":
        return True
    paths = _diff_paths(viol)
    return bool(paths) and all(any(_unconf(p) == c or _unconf(p).startswith(c + "/") for c in cands) for p in paths)


def m_content_revert(f, case, viol):
    """mechanism: both users create the same path P with different content before the engine is quiet (split / conflict
    handling); then one of them rewrites P with exactly the OTHER user's bytes - the engine sees equal hashes, 'discard one side
    and merge' - and afterwards rewrites it once more with bytes P has held before: the merged entry's last-synced hash is stale,
    the final version 'does not need sync' and is never propagated.  Needs payloads that repeat (C01's repeated-payload runs).
    History: create P on both sides with different payloads and no quiet between them; a later write to P whose payload equals
    the other side's; a still later write to P with a payload already seen on P; the only differing path is P, a file on both sides."""
    plan = case.get("plan", [])
    ops = [(i, it) for i, it in enumerate(plan) if it and it[0] == "U"]
    for P in set(it[3] for _, it in ops if it[2] == "create"):
        cr = [(i, it) for i, it in ops if it[2] == "create" and it[3] == P]
        sides = {}
        for i, it in cr:
            sides.setdefault(it[1], (i, it[4]))
        if len(sides) < 2 or sides[0][1] == sides[1][1]:
            continue
        lo, hi = sorted((sides[0][0], sides[1][0]))
        if any(_quiet(x) for x in plan[lo + 1:hi]):
            continue
        seen = {sides[0][1], sides[1][1]}
        equalised = False
        for i, it in ops:
            if i <= hi or it[3] != P or it[2] != "write":
                continue
            if not equalised:
                if it[4] == sides[1 - it[1]][1]:
                    equalised = True
            elif it[4] in seen:
                paths = _diff_paths(viol)
                if paths and all(p == P for p in paths) and list(viol.get("tokens") or ["f:f"]) == ["f:f"]:
                    return True
            seen.add(it[4])
    return False


def m_event_exc(f, case, viol):
    """mechanism: an exception raised by the state API (state.py) escaped an event-intake step while an event was being
    applied; the provider's read position had already moved past that event, so it is never delivered again."""
    un = viol.get("unhandled") or []
    return any(u.startswith("emgr") and "@state.py:" in u for u in un)


def m_half_transfer(f, case, viol):
    """mechanism: the process died after the engine had created/uploaded/made a folder on the peer but before storage recorded
    it (crash runs, variant 'resume' only); after the restart a user changes that same object or path (edit, rename, delete,
    re-create), and the engine can no longer tell its own half-recorded copy from a user's object: it repeats the transfer or
    parks a version as '<path>.conflicted'.  Every differing path must be related to the path of a user operation that the
    plan applies AFTER the crash instant; crash runs in which nothing happens after the crash ('halt') are never matched."""
    if not case.get("crash") or case.get("variant") != "resume":
        return False
    ci = viol.get("crash_item")
    if ci is None:
        return False
    post = [it for i, it in enumerate(case.get("plan", [])) if i > ci and it and it[0] == "U"]
    paths = _diff_paths(viol)
    if not paths or not post:
        return viol["cls"] == "nonquiescent" and bool(post)
    pp = [q for u in post for q in _op_paths(u)]
    return all(any(_related(_unconf(p), q) for q in pp) for p in paths)


def m_crash_rename_over(f, case, viol):
    """mechanism: a user renames a folder (the paths - with path ids also the ids - of the folder and of everything below it
    change; if the destination is an existing empty folder its id changes owner) and the process dies while the rename is
    being applied: the rows of the folder and of its children are separate storage writes (no transaction), and on replay the
    already-rewritten folder row makes the event a no-op, so children keep stale paths/ids, or a replaced folder's stale entry
    is re-attached to the renamed one.  Crash runs only; every differing path must be related to such a rename's source or
    destination."""
    if not case.get("crash"):
        return False
    flav = str(case.get("cfg", {}).get("flavour", ""))
    ends = []
    for u in user_ops(case):
        side, op = u[1], u[2]
        if op == "rename_dir":
            ends += [u[3], u[4]]
    if not ends:
        return False
    if viol["cls"] == "nonquiescent":
        return True
    paths = _diff_paths(viol)
    if not paths:
        return False
    return all(any(_related(_unconf(p), q) for q in ends) for p in paths)


def m_crash_dup_entry(f, case, viol):
    """mechanism (crash runs, path-id side): a user deletes file P and renames file Q onto the freed name P (then edits it);
    the process dies between the storage writes for that delete+rename; after the restart two entries claim the id '<P>', the
    engine's rename of the peer's Q onto P finds 'its own' copy of P in the way, deletes it "out of the way", and that delete is
    then propagated back to the user's P.  Every lost version must have been written to P or Q."""
    if not case.get("crash") or viol["cls"] != "content-lost":
        return False
    flav = str(case.get("cfg", {}).get("flavour", ""))
    ops = user_ops(case)
    pairs = []
    for i, u in enumerate(ops):
        if u[2] == "rename" and len(flav) >= 2 and flav[u[1]] == "p":
            if any(v[2] == "delete" and v[1] == u[1] and v[3] == u[4] for v in ops[:i]) or \
               any(x[0] == u[1] and x[1] == "create" and x[2] == u[4] for x in case.get("cfg", {}).get("prepop", ())):
                pairs.append((u[3], u[4]))
    if not pairs:
        return False
    lost = set(viol.get("lost") or [])
    where = {}
    for u in ops:
        if u[2] in ("create", "write"):
            where[u[4]] = u[3]
    return bool(lost) and all(any(where.get(p) in pq for pq in pairs) for p in lost)


def m_late_parent_event(f, case, viol):
    """mechanism (C14): the creation event of folder P is delivered late (held back / permuted) while a child of P is already
    synchronised: the engine creates P on the peer implicitly (mkdirs) without an entry that ties it to the origin's P; when P is
    then deleted or renamed on the origin before its creation event arrives, the peer's implicit P is never removed/renamed and
    is copied back.  Needs hold or permute to have been enabled; every differing path must be related to a folder created in
    the mangled phase that got a child in the mangled phase."""
    rates = case.get("rates") or {}
    if not (rates.get("hold") or rates.get("permute")):
        return False
    plan = case.get("plan", [])
    try:
        k = next(i for i, it in enumerate(plan) if it and it[0] == "X" and it[1] == "mark_synced")
    except StopIteration:
        k = -1
    main = [it for it in plan[k + 1:] if it and it[0] == "U"]
    parents = []
    for i, u in enumerate(main):
        if u[2] == "mkdir" and any(v[2] in ("mkdir", "create", "rename", "rename_dir") and any(q != u[3] and q.startswith(u[3] + "/") for q in _op_paths(v)) for v in main[i + 1:]):
            parents.append(u[3])
    # second form: a folder P deleted and a NEW folder made at the same path P in the mangled phase (two objects, one path):
    # with their events held back / permuted the engine ties the peer's folder to the wrong one
    for i, u in enumerate(main):
        if u[2] in ("rmtree", "rmdir") and any(v[2] == "mkdir" and v[3] == u[3] for v in main[i + 1:]):
            parents.append(u[3])
    paths = _diff_paths(viol)
    if not parents or not paths:
        return False
    return all(any(_related(_unconf(p), q) for q in parents) for p in paths)


def m_pathless_recreate(f, case, viol):
    """mechanism (C14): a side whose ids are paths delivers events with the path field dropped; file P is created, synchronised,
    deleted, and a new file created at P again: the path-less creation event is attached to the discarded entry of the deleted
    file (same id = same path) and the new file is never uploaded.  Needs 'nopath' enabled, a path-id origin side, and the
    history create P ... delete P ... create P; the differing path must be P."""
    rates = case.get("rates") or {}
    flav = str(case.get("cfg", {}).get("flavour", ""))
    origin = case.get("origin")
    if not rates.get("nopath") or origin is None or len(flav) < 2 or flav[origin] != "p":
        return False
    ops = [u for u in user_ops(case) if u[1] == origin]
    cand = set()
    for i, u in enumerate(ops):
        if u[2] in ("delete", "rmtree", "rmdir"):
            # the same id (= path) is used again by an object created later at the deleted path or below it (folder form found by
            # the thorough soak: mkdir P, rmtree P, mkdir P)
            for v in ops[i + 1:]:
                if v[2] in ("create", "mkdir") and (v[3] == u[3] or v[3].startswith(u[3] + "/")):
                    cand.add(v[3])
    paths = _diff_paths(viol)
    return bool(paths) and all(any(_unconf(p) == c or _unconf(p).startswith(c + "/") for c in cand) for p in paths)


def m_reordered_recreate(f, case, viol):
    """mechanism (C14): on a side with stable ids the user deletes P and makes a new object at P before the engine is quiet, and the
    feed delivers the two events out of order (permute / hold) or several times (dup / replay): the engine meets the new object
    while the old entry still claims P, takes it for a conflict with its own peer copy, and parks the user's new file as
    'P.conflicted' (or re-creates the old one) - in a one-sided history.  Needs a reordering/duplicating mangling enabled, an
    id-stable origin, 'delete|rmtree P ... create|mkdir P' by the origin's user without a quiet point; every differing path is P
    (possibly decorated) or below."""
    rates = case.get("rates") or {}
    flav = str(case.get("cfg", {}).get("flavour", ""))
    origin = case.get("origin")
    if origin is None or len(flav) < 2 or flav[origin] == "p":
        return False
    if not any(rates.get(k) for k in ("permute", "hold", "dup", "replay", "stale")):
        return False
    plan = case.get("plan", [])
    cand = set()
    for i, u in enumerate(plan):
        if not (u and u[0] == "U" and u[1] == origin and u[2] in ("delete", "rmtree", "rmdir")):
            continue
        for j in range(i + 1, len(plan)):
            v = plan[j]
            if _quiet(v):
                break
            if v and v[0] == "U" and v[1] == origin and v[2] in ("create", "mkdir") and (v[3] == u[3] or v[3].startswith(u[3] + "/")):
                cand.add(v[3])
    paths = _diff_paths(viol)
    return bool(paths) and all(any(_unconf(p) == c or _unconf(p).startswith(c + "/") for c in cand) for p in paths)


def m_request_stale_entry(f, case, viol):
    """mechanism (C20): a remote file P is deleted and re-created, and the application requests P (by path or id): the request is
    attached to the entry of the deleted file, the new file arrives as a different entry that is not in the request set and is
    never downloaded (or the merged listing misses it).  The differing path must be such a P that was also requested.
    (A narrower form - request before the engine has taken in the re-creation - was tried in hour 14 and withdrawn: the unchanged
    engine also fails, more rarely, after a complete intake.)"""
    ops = user_ops(case)
    cand = set()
    for i, u in enumerate(ops):
        if u[1] == 1 and u[2] == "delete" and any(v[1] == 1 and v[2] == "create" and v[3] == u[3] for v in ops[i + 1:]):
            cand.add(u[3])
    req = set(it[2] for it in case.get("plan", []) if it and it[0] == "X" and it[1] in ("sync_path", "sync_oid"))
    paths = _diff_paths(viol)
    return bool(paths) and all(p in cand and p in req for p in paths)


def m_rerequest_masks_remote_edit(f, case, viol):
    """mechanism (C20): a requested file P has a local edit that is still to be uploaded; the application requests P again
    (smart_sync_* marks the REMOTE side changed, and the refresh that follows stamps both sides 'seen' with that new, later stamp);
    the other user then edits P remotely, and before that event is taken in the pending upload runs: get_latest() skips the remote
    side (its 'seen' stamp is not older than any change stamp), no conflict is noticed, and the local bytes overwrite the remote
    edit.  History: U0 write P ... X sync_path|sync_oid P ... U1 write P (payload v), and the lost payload is exactly v."""
    plan = case.get("plan", [])
    lost = list(viol.get("lost") or [])
    if not lost:
        return False
    for i, u in enumerate(plan):
        if not (u and u[0] == "U" and u[1] == 0 and u[2] == "write"):
            continue
        P = u[3]
        for j in range(i + 1, len(plan)):
            x = plan[j]
            if x and x[0] == "X" and x[1] in ("sync_path", "sync_oid") and x[2] == P:
                for k in range(j + 1, len(plan)):
                    w = plan[k]
                    if w and w[0] == "U" and w[1] == 1 and w[2] == "write" and w[3] == P and lost == [w[4]]:
                        return True
    return False


def m_smart_intake_fault(f, case, viol):
    """mechanism (C20, runs with injected temporary errors): in on-demand mode the event manager calls the provider while it applies
    an event (path lookup for the auto-sync predicate / request set); when that call fails the event has already been taken from
    the feed, the provider's read position stands behind it, and it is never applied: a local edit or creation is never uploaded,
    a remote change never fetched.  Evidence required in the violation: an intake step of that run that had been handed events
    and in which an injected error hit the same side's provider ('intake_broken')."""
    return bool(case.get("faults") or case.get("fault_table")) and bool(viol.get("intake_broken"))


def m_mock_path_ci(f, case, viol):
    """mechanism (C16): MockProvider with path ids AND case-insensitive names (a combination the repo's own tests never use; the
    mock says 'TODO: support case insensitive storage'): MockFS keys an object both by its id - the path as first spelled - and by
    its normalized path, so as soon as one object is addressed under two spellings the two keys drift apart (child listed twice,
    stale id after delete + re-create, missing event).  Needs the provider to be mock_path_ci and the history to contain a path
    component with an upper-case letter."""
    if case.get("provider") != "mock_path_ci":
        return False
    comps = set()
    for op in case.get("plan", []):
        for x in op[1:]:
            if isinstance(x, str) and x.startswith("/"):
                comps.update(c for c in x.split("/") if c)
    # (the id keeps the spelling, the normalized key is lower-case: they differ as soon as a component has an upper-case letter)
    return any(c != c.lower() for c in comps)


def m_missing_resurrect(f, case, viol):
    """mechanism: on a side whose ids are paths a file is changed (write/create) and then deleted by the same user, and the sync
    manager works on the entry (at least five punts) before that side's delete event has been taken in: get_latest() finds the
    object MISSING, handle_changed_is_missing() marks the OTHER side unsynced, and the peer's old copy is pushed back to where
    the user deleted the file.  Needs a path-id acting side and 'write|create P ... delete P' by that side's user; every
    differing path must be such a P."""
    flav = str(case.get("cfg", {}).get("flavour", ""))
    plan = case.get("plan", [])
    cand = set()
    for i, u in enumerate(plan):
        if not (u and u[0] == "U" and u[2] == "delete" and len(flav) >= 2 and flav[u[1]] == "p"):
            continue
        if not any(v and v[0] == "U" and v[1] == u[1] and v[2] in ("write", "create") and v[3] == u[3] for v in plan[:i]):
            continue
        # the unchanged engine gives up only at the fifth attempt (priority > 4): at least five sync-manager steps must lie
        # between the delete and the next complete intake of that side's events (or a run to quiet, or the end of the plan)
        attempts = 0
        for k in range(i + 1, len(plan)):
            w = plan[k]
            if _quiet(w):
                break
            if w and w[0] == "S" and w[1] == u[1] and not (plan[k - 1] and plan[k - 1][0] == "E" and plan[k - 1][1] == u[1]):
                break
            if w and w[0] == "S" and w[1] == 2:
                attempts += 1
        if attempts >= 5:
            cand.add(u[3])
    paths = _diff_paths(viol)
    return bool(paths) and all(_unconf(p) in cand for p in paths)


def _abs_moves(case, kinds):
    """user moves addressed by account paths that cross a sync-root boundary: [(plan index, side, op, inside rel path, outside path, direction)]"""
    roots = tuple(case.get("cfg", {}).get("roots", ("/local", "/remote")))
    out = []
    for i, it in enumerate(case.get("plan", [])):
        if it and it[0] == "A" and it[2] in kinds:
            side, src, dst = it[1], it[3], it[4]
            root = roots[side]
            si, di = (src == root or src.startswith(root + "/")), (dst == root or dst.startswith(root + "/"))
            if si != di:
                inside, outside = (src, dst) if si else (dst, src)
                out.append((i, side, it[2], inside[len(root):], outside, "out" if si else "in"))
    return out


def _rename_closure(case, names):
    """all root-relative names the objects in `names` have, had or get through user renames on either side"""
    out = set(names)
    rn = [(it[3], it[4]) for it in case.get("plan", []) if it and it[0] == "U" and it[2] in ("rename", "rename_dir")]
    for _ in range(3):
        for src, dst in rn:
            for n in list(out):
                if n == src or n.startswith(src + "/"):
                    out.add(dst + n[len(src):])
                if n == dst or n.startswith(dst + "/"):
                    out.add(src + n[len(dst):])
    return out


def _paths_related_to_moves(viol, moves, case=None):
    paths = _diff_paths(viol)
    if not paths:
        return False
    rel = [m[3] for m in moves] + [m[4] for m in moves]
    if case is not None:
        rel = list(_rename_closure(case, [m[3] for m in moves])) + [m[4] for m in moves]
        # the same object crossing the boundary again (moved out as X, later moved back in as Y): Y is a name of that object too
        again = [mm[3] for mm in _abs_moves(case, ("rename", "rename_dir")) if any(_related(mm[4], m[4]) for m in moves)]
        rel += list(_rename_closure(case, again))
    return all(any(_related(_unconf(p), q) for q in rel) for p in paths)


def m_boundary_folder_move(f, case, viol):
    """mechanism: a FOLDER is moved across a sync-root boundary (out of the root, or into it carrying children / a history the
    state already knows as irrelevant): children are not created on the peer, the old subtree is left behind, or the engine
    keeps acting on the moved-out folder by id.  Every differing path must lie under such a move's inside or outside path."""
    moves = _abs_moves(case, ("rename_dir",))
    if not moves:
        return False
    if viol["cls"] == "nonquiescent":
        return True
    return _paths_related_to_moves(viol, moves, case)


def _aliases(case, side, path, upto):
    """earlier names of the object that is at `path` (root-relative) on `side` when plan item `upto` runs: follow the renames on
    that side backwards (both 'U' renames, relative, and 'A' renames inside the root)"""
    roots = tuple(case.get("cfg", {}).get("roots", ("/local", "/remote")))
    names = [path]
    cur = path
    for it in reversed(case.get("plan", [])[:upto]):
        if not it or it[0] not in ("U", "A") or it[1] != side or it[2] not in ("rename", "rename_dir"):
            continue
        src, dst = it[3], it[4]
        if it[0] == "A":
            r = roots[side]
            if not (src.startswith(r + "/") and dst.startswith(r + "/")):
                continue
            src, dst = src[len(r):], dst[len(r):]
        if cur == dst or cur.startswith(dst + "/"):
            cur = src + cur[len(dst):]
            names.append(cur)
    return names


def m_declined_conflict(f, case, viol):
    """mechanism (C12): the application starts declining a subtree that already holds a synchronised file, and that file is then
    edited on BOTH sides: the hash-conflict path (split / rename to '.conflicted') does not consult translate(), so one copy
    inside the declined subtree is renamed.  Every differing path must lie under the declined subtree and the plan must contain
    writes to one path under it from both sides after the decline."""
    plan = case.get("plan", [])
    try:
        k = next(i for i, it in enumerate(plan) if it and it[0] == "X" and it[1] == "decline")
    except StopIteration:
        return False
    dec = plan[k][2]
    roots = tuple(case.get("cfg", {}).get("roots", ("/local", "/remote")))
    writers = {}
    for it in plan[k + 1:]:
        if it and it[0] == "U" and it[2] in ("write", "create") and (it[3] == dec or it[3].startswith(dec + "/")):
            writers.setdefault(it[3], set()).add(it[1])
    both = [p for p, s in writers.items() if len(s) == 2]
    if not both:
        return False
    paths = []
    for p in _diff_paths(viol):
        for r in roots:
            if p.startswith(r + "/"):
                p = p[len(r):]
        paths.append(_unconf(p))
    return bool(paths) and all(any(_related(p, q) for q in both) for p in paths)


def m_moved_out_race(f, case, viol):
    """mechanism: a FILE is moved out of the root while a change to the same object made on the peer has not been synchronised
    yet (no quiet in between): the engine still applies the peer's change (upload/delete) to the object by id, outside the root."""
    moves = [m for m in _abs_moves(case, ("rename",)) if m[5] == "out"]
    if not moves:
        return False
    plan = case.get("plan", [])
    ok = []
    for m in moves:
        roots = tuple(case.get("cfg", {}).get("roots", ("/local", "/remote")))
        for j, u in enumerate(plan):
            if j == m[0] or not u or u[0] not in ("U", "A") or u[1] == m[1]:
                continue
            lo, hi = min(j, m[0]), max(j, m[0])
            if any(_quiet(it) for it in plan[lo + 1:hi]):
                continue
            qs = _op_paths(u)
            if u[0] == "A":     # account paths of the peer: keep those inside its root, relative to it
                r = roots[u[1]]
                qs = [q[len(r):] for q in qs if q.startswith(r + "/")]
            if any(_related(q, a) for q in qs for a in _aliases(case, m[1], m[3], m[0])):
                ok.append(m)
    if not ok:
        return False
    if viol["cls"] == "nonquiescent":
        return True
    return _paths_related_to_moves(viol, ok, case)


MATCHERS = {"reordered_recreate": m_reordered_recreate, "rerequest_masks_remote_edit": m_rerequest_masks_remote_edit, "smart_intake_fault": m_smart_intake_fault, "content_revert": m_content_revert, "conflicted_blocks_rmdir": m_conflicted_blocks_rmdir, "dup_folder_discard": m_dup_folder_discard, "missing_resurrect": m_missing_resurrect, "pathless_recreate": m_pathless_recreate, "declined_conflict": m_declined_conflict, "mock_path_ci": m_mock_path_ci, "request_stale_entry": m_request_stale_entry, "late_parent_event": m_late_parent_event, "crash_dup_entry": m_crash_dup_entry, "boundary_folder_move": m_boundary_folder_move, "moved_out_race": m_moved_out_race, "crash_rename_over": m_crash_rename_over, "event_exc": m_event_exc, "half_transfer": m_half_transfer, "history": m_history, "rename_race": m_rename_race, "dirdelete_race": m_dirdelete_race}


def match_one(f, case, viol):
    if viol["cls"] not in f.get("classes", []):
        return False
    return MATCHERS[f.get("matcher", "history")](f, case, viol)


def match(prop_id, case, viol):
    for f in open_for(prop_id):
        if match_one(f, case, viol):
            return f["id"]
    return None
