"""Reference model of one user-visible tree: relpath -> ('d', None) | ('f', bytes).  Independent of MockProvider:
used as the oracle's notion of 'what the users did' (C03/C04/C14)."""


def _under(parent, path):
    return path == parent or path.startswith(parent + "/")


def _parent(rel):
    return rel.rsplit("/", 1)[0]


def kind(t, rel):
    if rel == "":
        return "d"
    v = t.get(rel)
    return v[0] if v else None


def apply(t, op, a):
    """Apply a user op to model tree t in place.  Returns False if the op is not legal on t."""
    if op == "create":
        rel, data = a
        if kind(t, rel) is not None or kind(t, _parent(rel)) != "d":
            return False
        t[rel] = ("f", data.encode() if isinstance(data, str) else data)
    elif op == "write":
        rel, data = a
        if kind(t, rel) != "f":
            return False
        t[rel] = ("f", data.encode() if isinstance(data, str) else data)
    elif op == "delete":
        rel, = a
        if kind(t, rel) != "f":
            return False
        del t[rel]
    elif op == "rename":
        src, dst = a
        if kind(t, src) != "f" or src == dst or kind(t, dst) is not None or kind(t, _parent(dst)) != "d":
            return False
        t[dst] = t.pop(src)
    elif op == "mkdir":
        rel, = a
        if kind(t, rel) is not None or kind(t, _parent(rel)) != "d":
            return False
        t[rel] = ("d", None)
    elif op == "rmdir":
        rel, = a
        if kind(t, rel) != "d" or rel == "" or any(_under(rel, k) and k != rel for k in t):
            return False
        del t[rel]
    elif op == "rmtree":
        rel, = a
        if kind(t, rel) != "d" or rel == "":
            return False
        for k in [k for k in t if _under(rel, k)]:
            del t[k]
    elif op == "rename_dir":
        src, dst = a
        if kind(t, src) != "d" or src == "" or _under(src, dst) or kind(t, _parent(dst)) != "d" or _under(src, _parent(dst)):
            return False
        dk = kind(t, dst)
        if dk == "f" or (dk == "d" and any(_under(dst, k) and k != dst for k in t)):
            return False
        if dk == "d":
            del t[dst]
        for k in [k for k in t if _under(src, k)]:
            t[dst + k[len(src):]] = t.pop(k)
    else:
        raise ValueError(op)
    return True
