"""Batch runner: seeded search over simulated runs on all cores, violation -> minimise -> known-finding match ->
replay file -> fresh-interpreter confirmation -> VIOLATION line; evidence file; exit codes (DESIGN 3.4, 4.2, 7).

A property module (props/cXX.py) provides
    ID, LEVEL, RULE, ASSUMPTIONS, REAL, STUBS, TECHNIQUE
    budget(tier) -> {"runs": n, "wall": seconds}
    generate(rng, tier, index) -> result      (generation run: builds the case while executing it)
    replay(case) -> result                    (pure function of the case)
    [minimise(case, violation) -> case]       (default: delta debugging over case["plan"])
result = {"case": {...}, "violation": None | {"cls": str, "detail": str, ...}, "stats": {...}}
stats keys understood here: shape, nontrivial, fingerprints (iterable), sim_s, faults (dict), probes (dict),
rounds, family.
"""
import collections
import concurrent.futures as cf
import faulthandler
import hashlib
import json
import multiprocessing
import pickle
import shutil
import tempfile
import os
import random
import subprocess
import sys
import time
import traceback

VERIF = os.path.dirname(os.path.dirname(os.path.abspath(__file__)))
EVID = os.path.join(VERIF, "evidence")
REPLAYS = os.path.join(VERIF, "replays")


def mix(*parts):
    h = hashlib.sha256(repr(parts).encode()).digest()
    return int.from_bytes(h[:8], "big")


def h8(s):
    return hashlib.blake2b(s.encode() if isinstance(s, str) else s, digest_size=8).digest()


class Agg:
    def __init__(self):
        self.evaluations = 0
        self.shapes = set()
        self.fingerprints = set()
        self.faults = collections.Counter()
        self.probes = collections.Counter()
        self.families = collections.Counter()
        self.sim_s = 0.0
        self.max_rounds = 0
        self.samples = []
        self.violations = []
        self.errors = []
        self.extra = collections.Counter()

    def add(self, res, keep_sample):
        st = res.get("stats", {})
        self.evaluations += st.get("evaluations", 1)
        if st.get("nontrivial"):
            for s in (st["shape"] if isinstance(st.get("shape"), (list, tuple, set)) else [st.get("shape", "")]):
                self.shapes.add(h8(s))
        for f in st.get("fingerprints", ()):
            self.fingerprints.add(f if isinstance(f, bytes) else h8(f))
        self.faults.update(st.get("faults", {}))
        self.probes.update(st.get("probes", {}))
        self.families[st.get("family", "default")] += 1
        self.sim_s += st.get("sim_s", 0.0)
        self.max_rounds = max(self.max_rounds, st.get("rounds", 0) or 0)
        if keep_sample:
            self.samples.append(st.get("sample") or res.get("case"))

    def merge(self, o):
        self.evaluations += o.evaluations
        self.shapes |= o.shapes
        self.fingerprints |= o.fingerprints
        self.faults.update(o.faults)
        self.probes.update(o.probes)
        self.families.update(o.families)
        self.sim_s += o.sim_s
        self.max_rounds = max(self.max_rounds, o.max_rounds)
        self.samples += o.samples
        self.violations += o.violations
        self.errors += o.errors
        self.extra.update(o.extra)


_PROP = None


def _work(args):
    prop_id, tier, base_seed, start, count, deadline, stride = args
    faulthandler.enable()
    prop = load_prop(prop_id)
    if hasattr(prop, "warmup"):
        prop.warmup()
    agg = Agg()
    i = start
    n = 0
    while n < count:
        if time.time() > deadline:
            break
        rng = random.Random(mix(base_seed, prop_id, i))
        try:
            res = prop.generate(rng, tier, i)
        except BaseException as e:   # harness exception: never a verdict
            if isinstance(e, (KeyboardInterrupt, SystemExit)):
                raise
            agg.errors.append((i, "".join(traceback.format_exception(type(e), e, e.__traceback__))[-3000:]))
            if len(agg.errors) > 3:
                break
            i += stride
            n += 1
            continue
        agg.add(res, keep_sample=(n < 1))
        if res.get("violation"):
            if len(agg.violations) < 12:
                try:
                    mcase, mviol, _ = _minimise_job((prop_id, res["case"], res["violation"]))
                except Exception as e:   # pylint: disable=broad-except
                    mcase, mviol = res["case"], res["violation"]
                    agg.errors.append((i, "minimisation failed: %r" % (e,)))
                agg.violations.append((i, res["case"], res["violation"], mcase, mviol))
            else:
                # beyond the per-worker minimisation budget: a cheap match of the unminimised case decides whether this is one
                # more instance of an open finding (counted) or something that must still be minimised and reported
                from . import findings as _f
                fid = None
                try:
                    fid = _f.match(prop_id, res["case"], res["violation"])
                except Exception:   # pylint: disable=broad-except
                    fid = None
                if fid is None and agg.extra["unmatched_kept"] < 24:
                    agg.extra["unmatched_kept"] += 1
                    try:
                        mcase, mviol, _ = _minimise_job((prop_id, res["case"], res["violation"]))
                    except Exception as e:   # pylint: disable=broad-except
                        mcase, mviol = res["case"], res["violation"]
                    agg.violations.append((i, res["case"], res["violation"], mcase, mviol))
                else:
                    agg.extra["violations_not_kept"] += 1
                    if fid:
                        agg.extra["known_unminimised:" + fid] += 1
        i += stride
        n += 1
    return agg


def worker_main():
    t = json.loads(os.environ["VERIF_WORKER_TASK"])
    out = t.pop()
    agg = _work(tuple(t))
    with open(out + ".tmp", "wb") as f:
        pickle.dump(agg, f)
    os.replace(out + ".tmp", out)
    return 0


def load_prop(prop_id):
    import importlib
    return importlib.import_module("props." + prop_id.lower())


# ---------------------------------------------------------------------------------- minimisation
def ddmin_plan(prop, case, vcls, max_runs=400, key="plan", frozen=lambda it: False):
    """Delta debugging over case[key] under 'same violation class' (DESIGN 3.4)."""
    runs = [0]

    def fails(plan):
        if runs[0] >= max_runs:
            return False
        runs[0] += 1
        c = dict(case)
        c[key] = plan
        try:
            r = prop.replay(c)
        except Exception:
            return False
        return bool(r.get("violation")) and r["violation"]["cls"] == vcls
    cur = list(case[key])
    # user ops / faults first (big semantic steps), then everything
    for pred in (lambda it: it[0] != "S", lambda it: True):
        changed = True
        while changed and runs[0] < max_runs:
            changed = False
            chunk = max(len(cur) // 2, 1)
            while chunk >= 1 and runs[0] < max_runs:
                i = 0
                while i < len(cur) and runs[0] < max_runs:
                    seg = cur[i:i + chunk]
                    if all(pred(it) and not frozen(it) for it in seg) and seg:
                        cand = cur[:i] + cur[i + chunk:]
                        if fails(cand):
                            cur = cand
                            changed = True
                            continue
                    i += chunk
                chunk //= 2
    out = dict(case)
    out[key] = cur
    out["minimised"] = {"from": len(case[key]), "to": len(cur), "reruns": runs[0]}
    return out


def _minimise_job(args):
    prop_id, case, viol = args
    prop = load_prop(prop_id)
    try:
        if hasattr(prop, "minimise"):
            m = prop.minimise(case, viol)
        else:
            m = ddmin_plan(prop, case, viol["cls"])
        r = prop.replay(m)
        if r.get("violation") and r["violation"]["cls"] == viol["cls"]:
            return m, r["violation"], r.get("stats", {})
    except Exception:
        traceback.print_exc()
    r = prop.replay(case)
    return case, r.get("violation"), r.get("stats", {})


# ---------------------------------------------------------------------------------- main
def reexec_with_hashseed(seed):
    want = str(seed % 4096)
    if os.environ.get("PYTHONHASHSEED") != want or os.environ.get("VERIF_REEXEC") != "1":
        env = dict(os.environ)
        env["PYTHONHASHSEED"] = want
        env["VERIF_REEXEC"] = "1"
        os.execve(sys.executable, [sys.executable] + sys.argv, env)


def write_replay(prop_id, seed, idx, case, viol, extra=None):
    d = os.path.join(REPLAYS, prop_id)
    os.makedirs(d, exist_ok=True)
    path = os.path.join(d, "%d-%d.json" % (seed, idx))
    doc = {"property": prop_id, "seed": seed, "index": idx, "hashseed": os.environ.get("PYTHONHASHSEED"),
           "expect": {"cls": viol["cls"]}, "violation": viol, "case": case}
    if extra:
        doc.update(extra)
    with open(path, "w") as f:
        json.dump(doc, f, indent=1, default=_js)
    return path


def _js(o):
    if isinstance(o, bytes):
        return {"__b__": o.decode("latin1")}
    if isinstance(o, (set, frozenset)):
        return sorted(o)
    if isinstance(o, tuple):
        return list(o)
    return repr(o)


def unjs(o):
    if isinstance(o, dict):
        if set(o) == {"__b__"}:
            return o["__b__"].encode("latin1")
        return {k: unjs(v) for k, v in o.items()}
    if isinstance(o, list):
        return [unjs(x) for x in o]
    return o


def fresh_replay(prop_id, path):
    """Re-execute the replay file in a fresh interpreter; returns the violation class it reports (or None)."""
    env = dict(os.environ)
    env.pop("VERIF_REEXEC", None)
    try:
        doc = json.load(open(path))
        if doc.get("hashseed"):
            env["PYTHONHASHSEED"] = str(doc["hashseed"])
            env["VERIF_REEXEC"] = "1"
    except Exception:
        pass
    p = subprocess.run([sys.executable, os.path.join(VERIF, "run_check.py"), prop_id, "--replay", path],
                       env=env, stdout=subprocess.PIPE, stderr=subprocess.STDOUT, text=True, timeout=600)
    for line in p.stdout.splitlines():
        if line.startswith("REPLAY-RESULT "):
            cls = line.split("class=", 1)[1].strip()
            return None if cls == "none" else cls
    return "?harness:" + p.stdout[-500:]


def run_replay(prop_id, path):
    prop = load_prop(prop_id)
    if hasattr(prop, "warmup"):
        prop.warmup()
    doc = unjs(json.load(open(path)))
    res = prop.replay(doc["case"])
    v = res.get("violation")
    print("REPLAY-RESULT class=%s" % (v["cls"] if v else "none"))
    if v:
        print("detail: %s" % v.get("detail"))
        print("VIOLATION property=%s replay=%s" % (prop_id, path))
        return 1
    return 0


def main(prop_id, tier, seed, runs=None, jobs=None, wall=None):
    from . import findings
    t0 = time.time()
    prop = load_prop(prop_id)
    if hasattr(prop, "warmup"):
        prop.warmup()
    b = prop.budget(tier)
    runs = runs or b["runs"]
    wall = wall or b.get("wall", 600)
    jobs = jobs or min(16, os.cpu_count() or 4)
    deadline = t0 + wall
    exit_code = 0
    lines = []

    # (a) open known findings of this property: replay exemplars first
    known_tally = collections.Counter()
    open_findings = findings.open_for(prop_id)
    for f in open_findings:
        tried = 0
        for exm in f.get("exemplars", []):
            p = os.path.join(VERIF, exm)
            try:
                doc = unjs(json.load(open(p)))
                if doc.get("property") != prop_id:
                    continue
                tried += 1
                r = prop.replay(doc["case"])
                v = r.get("violation")
                if v and findings.match_one(f, doc["case"], v):
                    known_tally[f["id"]] += 0
                    lines.append("KNOWN-FINDING: property=%s %s %s" % (prop_id, f["id"], f["what"]))
                    break
            except Exception as e:
                print("HARNESS: exemplar %s failed to replay: %r" % (exm, e))
                exit_code = 2
        else:
            if tried:
                print("NOTE: known finding %s no longer reproduces from its exemplar(s) for %s" % (f["id"], prop_id))
    printed_known = set(l.split()[2] for l in lines)
    # (a') exemplars of *fixed* findings are regression cases: a fixed entry suppresses nothing, and if the
    #      recorded history fails again it is reported as a violation like any other
    regress = []
    for f in findings.fixed_for(prop_id):
        for exm in f.get("regression_exemplars", []):
            p = os.path.join(VERIF, exm)
            try:
                doc = unjs(json.load(open(p)))
                if doc.get("property") != prop_id:
                    continue
                r = prop.replay(doc["case"])
                if r.get("violation"):
                    regress.append((f["id"], doc["case"], r["violation"]))
            except Exception as e:
                print("HARNESS: regression exemplar %s failed to replay: %r" % (exm, e))
                exit_code = 2

    # (b) seeded search: one fresh interpreter per worker (fork()ed workers of a warm parent run ~6x slower in
    #     this VM: copy-on-write of a refcounted heap), results exchanged as pickles
    ctx = multiprocessing.get_context("fork")
    agg = Agg()
    per = (runs + jobs - 1) // jobs
    tasks = [(prop_id, tier, seed, w, per, deadline, jobs) for w in range(jobs)]
    dead_workers = 0
    outdir = tempfile.mkdtemp(prefix="csverif-out-")
    procs = []
    for t in tasks:
        out = os.path.join(outdir, "w%d.pkl" % t[3])
        env = dict(os.environ)
        env["VERIF_WORKER_TASK"] = json.dumps(list(t) + [out])
        procs.append((t, out, subprocess.Popen([sys.executable, os.path.join(VERIF, "run_check.py"), prop_id, "--worker"],
                                               env=env, stdout=subprocess.PIPE, stderr=subprocess.STDOUT, text=True)))
    for t, out, p in procs:
        try:
            so, _ = p.communicate(timeout=max(30, deadline - time.time() + 180))
        except subprocess.TimeoutExpired:
            p.kill()
            so, _ = p.communicate()
            agg.errors.append((-1, "worker %d timed out (wall clock)\n%s" % (t[3], (so or "")[-1500:])))
            dead_workers += 1
            continue
        try:
            with open(out, "rb") as f:
                agg.merge(pickle.load(f))
        except Exception as e:
            dead_workers += 1
            agg.errors.append((-1, "worker %d produced no result (exit %s): %r\n%s" % (t[3], p.returncode, e, (so or "")[-1500:])))
    shutil.rmtree(outdir, ignore_errors=True)
    if agg.errors:
        exit_code = 2
        for i, tb in agg.errors[:3]:
            print("HARNESS-ERROR run=%s\n%s" % (i, tb))

    # (c) violations: minimise, match, replay file, fresh-interpreter confirmation
    n_viol = 0
    reported = []
    viols = sorted(agg.violations, key=lambda v: v[0])
    budget_each = 8
    if viols:
        if True:
            for idx, case, viol, mcase, mviol in viols:
                if mviol is None:
                    print("HARNESS-NONDETERMINISM property=%s run=%d: violation %s did not reproduce on replay" % (prop_id, idx, viol["cls"]))
                    path = write_replay(prop_id, seed, idx, case, viol, {"note": "did not reproduce"})
                    exit_code = 2
                    continue
                fid = findings.match(prop_id, mcase, mviol)
                if fid:
                    known_tally[fid] += 1
                    if fid not in printed_known:
                        f = findings.by_id(fid)
                        lines.append("KNOWN-FINDING: property=%s %s %s" % (prop_id, fid, f["what"]))
                        printed_known.add(fid)
                    continue
                n_viol += 1
                if len(reported) >= budget_each:
                    continue
                path = write_replay(prop_id, seed, idx, mcase, mviol)
                got = fresh_replay(prop_id, path)
                if got != mviol["cls"]:
                    print("HARNESS-NONDETERMINISM property=%s replay=%s expected=%s got=%s" % (prop_id, path, mviol["cls"], got))
                    exit_code = 2
                    continue
                reported.append(path)
                print("violation class=%s detail=%s" % (mviol["cls"], str(mviol.get("detail"))[:600]))
                print("VIOLATION property=%s replay=%s" % (prop_id, path))
    # (c') rate guard: an open finding is a *measured* tail of the unchanged tree.  If far more runs fail than the
    #      recorded rates explain, some other defect is hiding behind a finding's pattern: reported as a violation
    #      (replay = the smallest matched case).  Threshold = 1.25 x expected + 6 sigma + 6.
    raw_viol = len(agg.violations) + agg.extra.get("violations_not_kept", 0)
    n_cases = sum(agg.families.values())        # generate() calls (a C07 case = one base run with all its crash runs)
    exp = sum(f.get("expected_rate", {}).get(prop_id, 0.0) for f in open_findings) * n_cases
    # (hour 12: was max(3x, +10 sigma + 10), which let a 2.7-fold excess of several hundred cases pass.  Failing runs are independent
    #  draws, so their count is Poisson around the measured rate; 25 % covers the error of the rate estimate itself (>= 30 000
    #  surveyed runs per property), 6 sigma and +6 the sampling noise: the chance of a false alarm is below 1e-6 per run.)
    limit = 1.25 * exp + 6 * ((1.25 * exp) ** 0.5) + 6
    rate_info = {"cases": n_cases, "raw_violations": raw_viol, "expected_known": round(exp, 2), "limit": round(limit, 1)}
    if open_findings and raw_viol > limit and not reported:
        matched = [(len(m.get("plan", [])), i, m, mv) for i, c, v, m, mv in viols if mv is not None and findings.match(prop_id, m, mv)]
        if matched:
            _, idx, mcase, mviol = min(matched, key=lambda t: (t[0], t[1]))
            mviol = dict(mviol)
            mviol["rate_anomaly"] = rate_info
            path = write_replay(prop_id, seed, idx, mcase, mviol)
            n_viol += 1
            reported.append(path)
            print("violation class=known-finding-rate-anomaly: %d failing runs of %d, but the open findings explain about %.1f (limit %.1f); one of them:" % (raw_viol, agg.evaluations, exp, limit))
            print("VIOLATION property=%s replay=%s" % (prop_id, path))
    for k, (fid, case, viol) in enumerate(regress):
        path = write_replay(prop_id, seed, -1 - k, case, viol, {"note": "regression of fixed finding %s" % fid})
        n_viol += 1
        reported.append(path)
        print("violation (regression of fixed finding %s) class=%s detail=%s" % (fid, viol["cls"], str(viol.get("detail"))[:600]))
        print("VIOLATION property=%s replay=%s" % (prop_id, path))
    for l in lines:
        print(l)
    if reported and exit_code == 0:
        exit_code = 1
    elif reported:
        exit_code = 1

    wall_s = time.time() - t0
    # (d) evidence
    ev = {
        "property_id": prop_id, "tier": tier, "seed": seed, "level": prop.LEVEL,
        "coverage": {
            "evaluations": agg.evaluations,
            "distinct_nontrivial": len(agg.shapes),
            "rule": prop.RULE,
            "samples": [json.loads(json.dumps(s, default=_js)) for s in agg.samples[:4]],
            "runs_per_hour": int(agg.evaluations / max(wall_s, 1e-6) * 3600),
            "simulated_seconds": round(agg.sim_s, 3),
            "faults_fired": dict(agg.faults),
            "probes": dict(agg.probes),
            "families": dict(agg.families),
            "distinct_state_fingerprints": len(agg.fingerprints),
            "max_rounds_to_quiet": agg.max_rounds,
            "known_finding_hits": dict(known_tally), "known_finding_rate_guard": rate_info,
            "known_finding_hits_unminimised": {k.split(":", 1)[1]: v for k, v in agg.extra.items() if k.startswith("known_unminimised:")},
            "workers": jobs, "hashseed": os.environ.get("PYTHONHASHSEED"),
            "real_components": getattr(prop, "REAL", []),
            "stubbed_components": getattr(prop, "STUBS", []),
            "technique": getattr(prop, "TECHNIQUE", "deterministic simulation, seeded schedule/fault search"),
            "runs_requested": runs, "stopped_by_wall_clock": agg.evaluations < runs * 0.98,
        },
        "assumptions": list(prop.ASSUMPTIONS),
        "wall_s": round(wall_s, 2),
        "violations": n_viol,
    }
    if hasattr(prop, "evidence_extra"):
        ev["coverage"].update(prop.evidence_extra(agg))
    evid = EVID
    if os.path.abspath(os.environ.get("VERIF_REPO", "/repo")) != "/repo":
        evid = os.path.join(EVID, ".other-tree")       # evidence/ proper only ever describes runs against /repo itself
    os.makedirs(evid, exist_ok=True)
    tmp = os.path.join(evid, ".%s.tmp" % prop_id)
    with open(tmp, "w") as f:
        json.dump(ev, f, indent=1, default=_js)
    os.replace(tmp, os.path.join(evid, "%s.json" % prop_id))
    print("%s tier=%s seed=%d runs=%d distinct=%d fingerprints=%d wall=%.1fs violations=%d known=%s exit=%d" % (
        prop_id, tier, seed, agg.evaluations, len(agg.shapes), len(agg.fingerprints), wall_s, n_viol, dict(known_tally), exit_code))
    return exit_code
