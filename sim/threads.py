"""Driver B (DESIGN 3.1-B): baton-passing sim-threads + virtual time.

The real Runnable / CloudSync code runs on real Python threads of which exactly one holds the baton.  threading.Thread,
Event, RLock, Lock, current_thread, queue.Queue and the module-level ``time`` seen by the cloudsync modules are sim
objects; every blocking call and every Event.set / Thread.start / lock release is a scheduling point where the seeded
PRNG picks the next runnable thread; when nobody is runnable the clock jumps to the earliest deadline; no runnable thread
and no deadline is a deadlock.  Optional line-level pre-emption: a sys.settrace function that fires only inside named
cloudsync files lets the PRNG switch threads between any two lines of those files (never inside stdlib frames, so no real
lock is ever held across a switch).  One seed = one exactly repeatable execution."""
import os
import random
import sys
import threading as _rt

from . import det
from .det import runmod, notifmod, statemod, mockmod, TIME_MODULES

T0 = 1_000_000.0


class SimAbort(BaseException):
    """raised inside sim-threads once the scheduler has given up (deadlock, step cap): unwinds them"""


class Deadlock(Exception):
    pass


class StepCap(Exception):
    pass


class SimThread:
    _ctr = 0

    def __init__(self, sched, target=None, args=(), kwargs=None, name=None, daemon=None, group=None):
        self.sched = sched
        self.target = target
        self.args = args
        self.kwargs = kwargs or {}
        SimThread._ctr += 1
        self.name = name or "T%d" % len(sched.threads)
        self.daemon = daemon
        self.state = "new"          # new | run | wait | dead
        self.cond = None
        self.deadline = None
        self.timed_out = False
        self.go = _rt.Semaphore(0)
        self.real = None
        self.ident = len(sched.threads) + 1
        self.exc = None

    # --- threading.Thread API used by cloudsync
    def start(self):
        s = self.sched
        self.real = _rt.Thread(target=self._boot, name="sim-" + self.name, daemon=True)
        self.state = "run"
        s.threads.append(self)
        s.by_real[None] = None
        self.real.start()
        s.log("start", self.name)
        s.yield_point()

    def _boot(self):
        s = self.sched
        self.go.acquire()
        s.by_real[_rt.get_ident()] = self
        try:
            if s.aborted:
                return
            if s.trace_files:
                sys.settrace(s.tracer)
            self.target(*self.args, **self.kwargs)
        except SimAbort:
            pass
        except BaseException as e:      # pylint: disable=broad-except
            self.exc = e
            s.thread_errors.append((self.name, repr(e)))
        finally:
            sys.settrace(None)
            self.state = "dead"
            s.log("exit", self.name)
            s.on_exit(self)

    def join(self, timeout=None):
        self.sched.block_until(lambda: self.state == "dead", timeout, "join:" + self.name)

    def is_alive(self):
        return self.state in ("run", "wait")

    def __repr__(self):
        return "<SimThread %s %s>" % (self.name, self.state)


class SimEvent:
    def __init__(self, sched):
        self.s = sched
        self.flag = False

    def is_set(self):
        return self.flag

    def set(self):
        self.flag = True
        self.s.log("set")
        self.s.yield_point()

    def clear(self):
        self.flag = False

    def wait(self, timeout=None):
        self.s.waits.append((self.s.cur.name, timeout, self.s.now))
        self.s.block_until(lambda: self.flag, timeout, "event")
        return self.flag


class SimRLock:
    def __init__(self, sched, reentrant=True):
        self.s = sched
        self.owner = None
        self.count = 0
        self.reentrant = reentrant

    def acquire(self, blocking=True, timeout=-1):
        me = self.s.cur
        if self.owner is me and self.reentrant:
            self.count += 1
            return True
        if self.owner is not None and not blocking:
            return False
        self.s.yield_point()
        tmo = None if timeout in (-1, None) else timeout
        while True:
            # (block_until may hand the baton on once more after the condition became true: re-check on return)
            self.s.block_until(lambda: self.owner is None, tmo, "lock")
            if self.owner is None:
                break
            if tmo is not None:
                return False
        self.owner = self.s.cur
        self.count = 1
        return True

    def release(self):
        if self.owner is not self.s.cur:
            raise RuntimeError("release of un-owned sim lock")
        self.count -= 1
        if self.count == 0:
            self.owner = None
            self.s.yield_point()

    def owned_by_current(self):
        return self.owner is self.s.cur

    __enter__ = acquire

    def __exit__(self, *a):
        self.release()


class SimQueue:
    def __init__(self, sched, maxsize=0):
        self.s = sched
        self.items = []

    def put(self, item, block=True, timeout=None):
        self.items.append(item)
        self.s.log("put", len(self.items))
        self.s.yield_point()

    def get(self, block=True, timeout=None):
        if not block:
            if not self.items:
                raise self.s.Empty()
            return self.items.pop(0)
        while True:
            self.s.block_until(lambda: bool(self.items), timeout, "queue")
            if self.items:
                return self.items.pop(0)
            if timeout is not None:
                raise self.s.Empty()

    def empty(self):
        return not self.items

    def qsize(self):
        return len(self.items)


class _SimEmpty(Exception):
    pass


class Sched:
    """seed decides everything: which runnable thread continues at every scheduling point, and (with preempt_p) at which
    traced lines a pre-emption happens"""

    Empty = _SimEmpty

    def __init__(self, seed, preempt_p=0.0, trace_files=(), max_decisions=200000):
        self.rng = random.Random(seed)
        self.preempt_p = preempt_p
        self.trace_files = tuple(trace_files)
        self.threads = []
        self.by_real = {}
        self.cur = None
        self.now = T0
        self.events = []            # compact event log (for digests)
        self.decisions = 0
        self.max_decisions = max_decisions
        self.aborted = None
        self.thread_errors = []
        self.waits = []             # (thread name, timeout requested, virtual time) of every Event.wait: C18 reads sleep durations here
        self.preempts = 0
        self.switches = 0
        self.main = None

    # ------------------------------------------------------------ logging (never draws from the PRNG / reads a real clock)
    def log(self, *a):
        if len(self.events) < 20000:
            self.events.append(a)

    # ------------------------------------------------------------ running
    def run_main(self, fn):
        """run fn as the first sim-thread (the application / user thread) and return its result"""
        main = SimThread(self, name="main")
        main.state = "run"
        main.real = _rt.current_thread()
        self.threads.append(main)
        self.by_real[_rt.get_ident()] = main
        self.cur = main
        self.main = main
        # the cyclic garbage collector runs finalisers (e.g. closes abandoned generators of traced files) at allocation-count
        # dependent instants: off during the run, collected afterwards with tracing off
        import gc
        gc.collect()
        gc.disable()
        if self.trace_files:
            sys.settrace(self.tracer)
        try:
            return fn()
        finally:
            sys.settrace(None)
            main.state = "dead"
            self._release_all()
            gc.enable()
            gc.collect()

    def _release_all(self):
        """let every remaining sim-thread unwind (SimAbort at its next primitive)"""
        if self.aborted is None:
            self.aborted = "finished"
        for t in self.threads:
            if t.state != "dead" and t is not self.main:
                t.go.release()
        for t in self.threads:
            if t.real is not None and t is not self.main:
                t.real.join(timeout=5)

    def current(self):
        return self.by_real.get(_rt.get_ident())

    def on_exit(self, t):
        if self.aborted:
            return
        # the exiting thread hands the baton on
        self._pick_and_go(exiting=t)

    # ------------------------------------------------------------ scheduling
    def _candidates(self):
        out = []
        for t in self.threads:
            if t.state == "run":
                out.append(t)
            elif t.state == "wait" and t.cond is not None and t.cond():
                out.append(t)
        return out

    def _pick_and_go(self, exiting=None):
        me = exiting or self.cur
        while True:
            cands = self._candidates()
            if cands:
                break
            waiting = [t for t in self.threads if t.state == "wait" and t.deadline is not None]
            if not waiting:
                self._abort("deadlock: " + ", ".join("%s:%s" % (t.name, t.state) for t in self.threads))
                if exiting is None:
                    raise SimAbort()
                return
            t = min(waiting, key=lambda t: (t.deadline, t.ident))
            self.now = max(self.now, t.deadline)
            t.timed_out = True
            t.state = "run"
            t.cond = None
        self.decisions += 1
        if self.decisions > self.max_decisions:
            self._abort("step cap")
            if exiting is None:
                raise SimAbort()
            return
        # current thread first, so that decision 0 means 'keep running'
        cands.sort(key=lambda t: (t is not me, t.ident))
        nxt = cands[self.rng.randrange(len(cands))] if len(cands) > 1 else cands[0]
        if nxt.state == "wait":
            nxt.state = "run"
            nxt.cond = None
        if nxt is me and exiting is None:
            return
        self.switches += 1
        self.cur = nxt
        nxt.go.release()
        if exiting is None:
            me.go.acquire()
            if self.aborted:
                raise SimAbort()

    def _abort(self, why):
        if self.aborted is None:
            self.aborted = why
        self.log("abort", why)
        # wake the main thread so that it can report; everybody else unwinds when released at the end
        if self.main is not None and self.cur is not self.main and self.main.state != "dead":
            self.cur = self.main
            self.main.go.release()

    def yield_point(self):
        if self.aborted:
            if self.current() is not self.main or self.aborted != "finished":
                raise SimAbort()
            return
        me = self.current()
        if me is None or me is not self.cur:
            return
        self._pick_and_go()

    def block_until(self, cond, timeout, what=""):
        if self.aborted:
            raise SimAbort()
        me = self.current()
        if me is None:
            raise RuntimeError("sim primitive used from a thread the simulator does not own")
        if cond():
            self.yield_point()
            return
        me.state = "wait"
        me.cond = cond
        me.timed_out = False
        me.deadline = None if timeout is None else self.now + max(0.0, timeout)
        self.log("block", me.name, what, None if timeout is None else round(timeout, 6))
        self._pick_and_go()
        me.deadline = None

    # ------------------------------------------------------------ line-level pre-emption
    def tracer(self, frame, event, arg):
        if event == "call":
            fn = frame.f_code.co_filename
            if fn.endswith(self.trace_files):
                # the first 'line' event of a frame is not a pre-emption point: CPython 3.12 does not deliver it the first time a
                # code object runs under sys.settrace in a process, which would shift the whole PRNG stream of that run
                # Likewise a 'line' event that repeats the frame's previous line number (re-delivered when a call made on that
                # line returns) depends on how far the adaptive interpreter has specialised the code object: ignored.
                first = [True]
                last = [None]

                def line(frame, event, arg):
                    if event == "line":
                        ln = frame.f_lineno
                        if first[0]:
                            first[0] = False
                            last[0] = ln
                        elif ln == last[0]:
                            pass
                        elif not self.aborted and self.preempt_p:
                            last[0] = ln
                            me = self.by_real.get(_rt.get_ident())
                            if me is not None and me is self.cur and self.rng.random() < self.preempt_p:
                                self.preempts += 1
                                self.log("preempt", os.path.basename(frame.f_code.co_filename), frame.f_lineno)
                                self._pick_and_go()
                    return line
                return line
        return None

    # ------------------------------------------------------------ the module objects handed to cloudsync
    def sleep(self, secs):
        self.block_until(lambda: False, max(0.0, secs or 0.0), "sleep")

    def digest(self):
        import hashlib
        return hashlib.sha256(repr((self.events, round(self.now, 6), self.decisions, self.preempts)).encode()).hexdigest()[:16]


class _Threading:
    def __init__(self, s):
        self._s = s
        self.Thread = lambda *a, **kw: SimThread(s, *a, **kw)
        self.Event = lambda: SimEvent(s)
        self.RLock = lambda: SimRLock(s, True)
        self.Lock = lambda: SimRLock(s, False)
        self.TIMEOUT_MAX = _rt.TIMEOUT_MAX

    def current_thread(self):
        return self._s.current()

    def get_ident(self):
        t = self._s.current()
        return t.ident if t else 0


class _Queue:
    def __init__(self, s):
        self.Queue = lambda maxsize=0: SimQueue(s, maxsize)
        self.Empty = s.Empty


class _Time:
    def __init__(self, s):
        self._s = s

    def time(self):
        return self._s.now

    def monotonic(self):
        return self._s.now

    def sleep(self, secs):
        self._s.sleep(secs)


_SAVED = {}


def install(s):
    """rebind the module-level names of the cloudsync modules to sim objects owned by scheduler s"""
    if not _SAVED:
        _SAVED["threading"] = runmod.threading
        _SAVED["queue"] = notifmod.queue
        _SAVED["state.RLock"] = statemod.RLock
        _SAVED["mock.RLock"] = mockmod.RLock
        _SAVED["time"] = {m: m.time for m in TIME_MODULES}
    th = _Threading(s)
    runmod.threading = th
    notifmod.queue = _Queue(s)
    statemod.RLock = th.RLock
    mockmod.RLock = th.RLock
    t = _Time(s)
    for m in TIME_MODULES:
        m.time = t
    return th


def uninstall():
    if not _SAVED:
        return
    runmod.threading = _SAVED["threading"]
    notifmod.queue = _SAVED["queue"]
    statemod.RLock = _SAVED["state.RLock"]
    mockmod.RLock = _SAVED["mock.RLock"]
    for m, v in _SAVED["time"].items():
        m.time = v
    det.install_clock(det.CLOCK)
