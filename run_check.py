#!/venv/bin/python
"""Single entry point:  run_check.py <ID> [--tier quick|thorough] [--seed N] [--runs N] [--jobs N] [--wall S]
                        run_check.py <ID> --replay <file>
Exit 0 = property held on everything explored; 1 = VIOLATION printed; 2 = harness failure (never a verdict)."""
import argparse
import os
import sys

VERIF = os.path.dirname(os.path.abspath(__file__))
sys.path.insert(0, VERIF)


def main():
    ap = argparse.ArgumentParser()
    ap.add_argument("prop")
    ap.add_argument("--tier", default=os.environ.get("VERIF_TIER", "quick"))
    ap.add_argument("--seed", type=int, default=int(os.environ.get("VERIF_SEED", "0") or 0))
    ap.add_argument("--runs", type=int)
    ap.add_argument("--jobs", type=int)
    ap.add_argument("--wall", type=float)
    ap.add_argument("--replay")
    ap.add_argument("--worker", action="store_true")
    a = ap.parse_args()
    if a.tier not in ("quick", "thorough"):
        a.tier = "quick"
    from sim import runner
    if a.worker:
        sys.exit(runner.worker_main())
    if a.replay:
        if os.environ.get("PYTHONHASHSEED") is None:
            os.environ["PYTHONHASHSEED"] = "0"
            os.environ["VERIF_REEXEC"] = "1"
            os.execve(sys.executable, [sys.executable] + sys.argv, os.environ)
        sys.exit(runner.run_replay(a.prop.upper(), os.path.abspath(a.replay)))
    runner.reexec_with_hashseed(a.seed)
    sys.exit(runner.main(a.prop.upper(), a.tier, a.seed, a.runs, a.jobs, a.wall))


if __name__ == "__main__":
    main()
