"""C01 Two-way convergence (DESIGN 5/C01): two-sided histories x schedule styles x provider flavours;
oracle at quiet: trees equal modulo '.conflicted'; liveness: quiet within the round budget."""
from .common import *   # noqa: F401,F403
from .common import (Exec, gen_history, Violation, weighted, random_mix, FingerprintMonitor, base_stats,
                     convergence_violation, ALL_FLAVOURS, REAL, STUBS)

ID = "C01"
LEVEL = "exploration"
TECHNIQUE = "deterministic simulation: seeded step scheduler over the real engine + mock clouds, virtual clock, split event intake"
RULE = ("each run = (provider flavour pair - ids stable or paths, event filter on/off, case-sensitive, case-insensitive and mixed-case pairs (there with case-only renames in the mix and names differing only in case never generated as siblings) -, two-sided user history of 1-7 ops over a tiny name alphabet (incl. name swaps: two files exchange names through a temporary name), schedule style "
        "eager|batched|bursty|split-intake, explicit engine-step interleaving) drawn from H(seed,index); executed on the "
        "real CloudSync/SyncManager/EventManager/SyncState with two MockProviders under a virtual clock; then faults off "
        "and run to quiet. distinct = distinct (history shape with names abstracted, schedule string, flavour); "
        "non-trivial = the engine issued >=1 provider write and >=1 engine step ran between/after user operations.")
ASSUMPTIONS = ["MockProvider is the cloud contract (C16 ties it down)", "histories bounded: <=7 user ops, <=3 levels, names from {a,b,c.txt,d1,d2}",
               "atomic units are one event application / one entry synchronisation (C15 checks the lock discipline that makes this exhaustive of production interleavings)",
               "a clean batch is evidence, not proof"]

CI_FLAVOURS = ("oo_ci", "oo_mix", "oo_xim")      # id-style mocks only: path ids + case-insensitive names is an unusable mock configuration (C16)
FAMILIES_QUICK = (("eager", 5), ("batched", 3), ("bursty", 2), ("split", 2))
FAMILIES_THOROUGH = (("eager", 2), ("batched", 4), ("bursty", 2), ("split", 4))


def budget(tier):
    return {"quick": {"runs": 6000, "wall": 150}, "thorough": {"runs": 72000, "wall": 900}}[tier]


def _oracle(ex):
    return convergence_violation(ex)


def _finish(ex, case, fp):
    try:
        ex.epilogue()
        v = _oracle(ex)
    except Violation as e:
        v = e
    st = base_stats(ex, case["style"], fp)
    return {"case": case, "violation": v.as_dict() if v else None, "stats": st}


def generate(rng, tier, index):
    flav = rng.choice(ALL_FLAVOURS + CI_FLAVOURS)
    style = weighted(rng, FAMILIES_QUICK if tier == "quick" else FAMILIES_THOROUGH)
    nops = rng.randint(1, 7)
    cfg = {"flavour": flav}
    ex = Exec(cfg)
    fp = FingerprintMonitor()
    ex.monitors.append(fp)
    case = {"prop": ID, "cfg": cfg, "style": style, "family": style}
    try:
        mix = random_mix(rng)
        mix["swap"] = 1             # two files exchange names through a temporary name
        if flav in CI_FLAVOURS:
            mix["recase"] = 2           # case-only renames: a case-insensitive side must still carry them over
        # (payloads that repeat - files with identical content, content that returns to an earlier value - were generated for a
        #  while, hour 15: they reach the engine's rename detection by content hash, but within 600 000 runs also produced three
        #  different failures of the unchanged tree (KF-CONTENT-REVERT-AFTER-MERGE and two more: DESIGN 17); withdrawn)
        gen_history(rng, ex, nops, style=style, mix=mix)
    except Violation as e:
        case["plan"] = ex.plan
        return {"case": case, "violation": e.as_dict(), "stats": base_stats(ex, style, fp)}
    case["plan"] = ex.plan
    return _finish(ex, case, fp)


def replay(case):
    ex = Exec(case["cfg"])
    fp = FingerprintMonitor()
    ex.monitors.append(fp)
    try:
        ex.run(case["plan"])
    except Violation as e:
        return {"case": case, "violation": e.as_dict(), "stats": base_stats(ex, case.get("style"), fp)}
    return _finish(ex, dict(case), fp)

LEVEL_TEXT = ("seeded exploration of (history x schedule x flavour) with the real engine under a deterministic step scheduler; "
              "a violation is a concrete replayable plan. Sampling, not proof: quick ~6k runs, thorough ~72k runs. "
              "Interleaved rename / folder-delete races are a recorded known finding (identified on the 1-minimal history); everything else is reported.")
LEVEL_NOTE = ("trusted: MockProvider as the cloud, the harness's emulation of Runnable.run around do(), tree reads through the Provider API; "
              "bounded histories (<=7 ops); the step driver's atomic units are the engine's own lock scopes (C15 checks that discipline)")
