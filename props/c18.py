"""C18 Service loops (DESIGN 5/C18): the real Runnable / NotificationManager on sim-threads with line-level pre-emption."""
import random

from sim import det
from sim import threads as T
from sim.det import runmod, notifmod

ID = "C18"
ENGINE = "sim-threads"
LEVEL = "exploration"
TECHNIQUE = "deterministic simulation of threads: baton-passing sim-threads, virtual clock, seeded choice at every blocking call / Event.set / Thread.start and at traced lines of runnable.py and notification.py"
RULE = ("family 'service': a Runnable subclass whose do() outcomes follow a generated sequence (success, no-op, backoff(), Exception, BaseException), a generated backoff triple (min, max, mult) and loop "
        "sleep, and an application thread that calls start / wake / stop(forever, wait) / wait / start-again at generated virtual times while a second thread may call wake concurrently; family "
        "'notify': a NotificationManager with 1-3 producer threads raising generated notifications and a handler that raises on chosen items. Every run is one seed of the scheduler (which thread "
        "continues at each of the ~50-500 scheduling points; pre-emption probability per traced line in {0, 0.02, 0.1, 0.3}). Oracles: the wait requested after the k-th consecutive failure is exactly "
        "min(max, min*mult^(k-1)), a success that did something returns to the plain sleep, a no-op keeps the backoff; no do() is logged after stop() returned from another thread (or after wait() "
        "following stop(wait=False)); done() ran exactly once when the final stop reached a live loop (a final stop of a service that had already exited after a non-final stop runs no cleanup: by the code's design, see ASSUMPTIONS) and never twice; start() after a final stop raises; no exception leaves start/stop/wake/wait; every notification raised is delivered "
        "at most once and - unless the service is stopped with items still queued - exactly once, in per-producer order, one at a time, and deliveries continue after a handler exception. distinct = (scenario shape, scheduler digest); non-trivial = >=1 real thread switch "
        "happened while the service loop was alive.")
ASSUMPTIONS = ["'cleanup exactly once if the stop was final' is judged when the final stop() is issued while the loop is alive and no earlier non-final stop is still in flight; Runnable runs done() only from the loop's own exit path, so a final stop of an already exited service runs none",
               "scheduling points are the sim primitives plus traced Python lines of runnable.py / notification.py; interleavings inside C code or between bytecodes of one line are not explored",
               "virtual time: Event.wait(timeout) requests are read from the sim Event, so 'waits X seconds' means 'asks to wait X seconds'"]
LEVEL_TEXT = "seeded exploration of thread schedules (one seed = one exactly repeatable execution) with per-event oracles over the recorded history"
LEVEL_NOTE = "trusted: sim/threads.py (scheduler + sim primitives, 300 lines); real code: cloudsync/runnable.py and cloudsync/notification.py unmodified"
REAL = ["Runnable (run/start/stop/wake/wait/backoff)", "NotificationManager"]
STUBS = ["threading.Thread/Event/current_thread, queue.Queue, time (sim/threads.py)", "the service's do() and the notification handler (scenario-scripted)"]

OUTCOMES = ("ok", "noop", "backoff", "exc", "baseexc")
TRACE = ("cloudsync/runnable.py", "cloudsync/notification.py")


class _Base(BaseException):
    pass


def budget(tier):
    return {"quick": {"runs": 3000, "wall": 170}, "thorough": {"runs": 36000, "wall": 900}}[tier]


# ----------------------------------------------------------------------------------------------- service family
def _run_service(case):
    sc = case["scenario"]
    s = T.Sched(case["sched_seed"], preempt_p=case["preempt_p"], trace_files=TRACE)
    T.install(s)
    hist = s.waits          # shared chronological history: ("do", name, outcome) / (thread, timeout, now) / markers
    errors = []
    try:
        class Svc(runmod.Runnable):
            def __init__(self):
                self.outs = list(sc["outcomes"])
                self.min_backoff, self.max_backoff, self.mult_backoff = sc["backoff"]
                self.service_name = "Svc"
                self.ndone = 0

            def do(self):
                o = self.outs.pop(0) if self.outs else "idle"
                hist.append(("do", o, s.now))
                if o == "ok":
                    return
                if o in ("noop", "idle"):
                    self.nothing_happened()
                    return
                if o == "backoff":
                    self.backoff()
                if o == "exc":
                    raise ValueError("scripted failure")
                if o == "baseexc":
                    raise _Base("scripted very serious failure")

            def done(self):
                self.ndone += 1
                hist.append(("done", s.now))

        svc = Svc()
        info = {"started": False, "final": False, "start_after_final": None, "final_while_alive": False}

        def call(name, fn):
            try:
                return fn()
            except TimeoutError:
                hist.append(("timeout", name))
            except RuntimeError as e:
                if name == "start" and info["final"]:
                    info["start_after_final"] = "raised"
                else:
                    errors.append((name, repr(e)))
            except T.SimAbort:
                raise
            except BaseException as e:      # pylint: disable=broad-except
                errors.append((name, repr(e)))
            return None

        def waker(n, gap):
            for _ in range(n):
                s.sleep(gap)
                call("wake", svc.wake)

        def main():
            th = None
            for act in sc["script"]:
                k = act[0]
                if k == "sleep":
                    s.sleep(act[1])
                elif k == "start":
                    was_final = info["final"]
                    running = svc.started
                    hist.append(("starting",))
                    try:
                        svc.start(sleep=sc["sleep"])
                        if was_final:
                            info["start_after_final"] = "accepted"
                        else:
                            info["started"] = True
                            info["stop_pending"] = False
                    except RuntimeError as e:
                        # documented refusals: already running, or finally stopped
                        if was_final:
                            info["start_after_final"] = "raised"
                        elif not running and "already started" not in str(e):
                            errors.append(("start", repr(e)))
                    except T.SimAbort:
                        raise
                    except BaseException as e:      # pylint: disable=broad-except
                        errors.append(("start", repr(e)))
                elif k == "wake":
                    call("wake", svc.wake)
                elif k == "waker":
                    th = T.SimThread(s, target=waker, args=(act[1], act[2]), name="waker")
                    th.start()
                elif k == "stop":
                    if act[1] and not info["final"] and svc.started and not info.get("stop_pending"):
                        info["final_while_alive"] = True
                    call("stop", lambda: svc.stop(forever=act[1], wait=act[2]))
                    if act[1]:
                        info["final"] = True
                    info["stop_pending"] = True
                    if act[2]:
                        hist.append(("stopped",))
                elif k == "wait":
                    if not info.get("stop_pending") and act[1] is None:
                        continue            # wait() without a timeout on a service nobody stops waits forever by contract
                    r = call("wait", lambda: svc.wait(timeout=act[1]))
                    if r is not None and info.get("stop_pending"):
                        hist.append(("stopped",))
            # epilogue: a final waiting stop, so that nothing is left running
            if not info["final"] and svc.started and not info.get("stop_pending"):
                info["final_while_alive"] = True
            call("stop", lambda: svc.stop(forever=True, wait=True))
            info["final"] = True
            hist.append(("stopped",))
            if th is not None:
                th.join()
            s.sleep(sc["sleep"] * 3 + 1.0)
            return svc.ndone
        ndone = None
        try:
            ndone = s.run_main(main)
        except T.SimAbort:
            pass
    finally:
        T.uninstall()
    return s, hist, errors, info, ndone


def _service_violation(case, s, hist, errors, info, ndone):
    sc = case["scenario"]
    if s.aborted and s.aborted != "finished":
        return ("hang", "the scheduler gave up: %s" % s.aborted)
    if s.thread_errors:
        return ("thread-died", "an exception escaped a service thread: %s" % (s.thread_errors[:2],))
    if errors:
        return ("api-raised", "an exception left %s: %s" % (errors[0][0], errors[0][1]))
    mn, mx, mult = sc["backoff"]
    b = 0.0
    stopped = False
    expect = None
    for h in hist:
        if h[0] == "do":
            if stopped:
                return ("do-after-stop", "do() was called at t=%.4f after stop()/wait() had returned to the caller" % h[2])
            o = h[1]
            if o == "ok":
                b = 0.0
            elif o in ("backoff", "exc", "baseexc"):
                b = min(mx, max(b * mult, mn))
            expect = b if b > 0 else sc["sleep"]
        elif h[0] == "Svc" and len(h) == 3:
            if expect is not None:
                if h[1] is None or abs(h[1] - expect) > 1e-9:
                    return ("backoff-arithmetic", "after the outcomes so far the loop should wait %r s but asked to wait %r s (min=%s max=%s mult=%s sleep=%s)" % (expect, h[1], mn, mx, mult, sc["sleep"]))
                expect = None
        elif h[0] == "stopped":
            stopped = True
        elif h[0] == "starting":
            stopped = False
    if info["final_while_alive"] and ndone != 1:
        return ("done-count", "the final stop() reached the service while its loop was alive; cleanup ran %r time(s), expected exactly once" % (ndone,))
    if ndone is not None and ndone > 1:
        return ("done-count", "cleanup ran %r times" % (ndone,))
    if info["start_after_final"] == "accepted":
        return ("restart-after-final-stop", "start() after a final stop() was accepted")
    return None


def _gen_service(rng):
    mn = rng.choice([0.01, 0.05, 0.5])
    mult = rng.choice([1.5, 2.0, 3.0])
    mx = mn * rng.choice([1, 4, 20])
    outcomes = [rng.choice(OUTCOMES) for _ in range(rng.randint(2, 12))]
    sleep = rng.choice([0.001, 0.1, 1.0])
    script = [["start"]]
    for _ in range(rng.randint(0, 6)):
        r = rng.random()
        if r < 0.4:
            # (bounded by 1500 loop periods: a 20 s pause of a loop that ticks every millisecond is 20 000 iterations and ran the
            #  simulated scheduler into its decision cap, which then looked like a hang - thorough soak, seed 3)
            script.append(["sleep", min(rng.choice([0.0005, sleep, mn, mx * 2, 5.0]), sleep * 1500)])
        elif r < 0.55:
            script.append(["wake"])
        elif r < 0.65:
            script.append(["waker", rng.randint(1, 4), rng.choice([0.001, sleep, mn])])
        elif r < 0.85:
            script.append(["stop", rng.random() < 0.4, rng.random() < 0.6])
        elif r < 0.93:
            script.append(["wait", rng.choice([None, 0.5])])
        else:
            script.append(["start"])
    return {"backoff": [mn, mx, mult], "outcomes": outcomes, "sleep": sleep, "script": script}


# ----------------------------------------------------------------------------------------------- notification family
def _run_notify(case):
    sc = case["scenario"]
    s = T.Sched(case["sched_seed"], preempt_p=case["preempt_p"], trace_files=TRACE)
    T.install(s)
    delivered = []
    in_handler = [0]
    overlap = [False]
    errors = []
    try:
        def handler(n):
            in_handler[0] += 1
            if in_handler[0] > 1:
                overlap[0] = True
            try:
                s.yield_point()
                delivered.append(n.path)
                if n.path in sc["raise_on"]:
                    raise ValueError("handler failure")
            finally:
                in_handler[0] -= 1
        ndone = [0]

        class NM(notifmod.NotificationManager):
            def done(self):
                ndone[0] += 1
                super().done()
        nm = NM(handler)
        restart = [None]
        at_stop = [0]

        def producer(pid, n, gap):
            for i in range(n):
                if gap:
                    s.sleep(gap)
                nm.notify(notifmod.Notification(notifmod.SourceEnum.SYNC, notifmod.NotificationType.TEMPORARY_ERROR, "p%d-%d" % (pid, i)))

        def main():
            nm.start()
            ths = []
            for pid, (n, gap) in enumerate(sc["producers"]):
                t = T.SimThread(s, target=producer, args=(pid, n, gap), name="prod%d" % pid)
                t.start()
                ths.append(t)
            for t in ths:
                t.join()
            s.sleep(sc.get("idle", 1.0))
            at_stop[0] = len(delivered)
            try:
                nm.stop(forever=True, wait=True)
            except BaseException as e:      # pylint: disable=broad-except
                if isinstance(e, T.SimAbort):
                    raise
                errors.append(("stop", repr(e)))
            s.sleep(0.5)
            try:
                nm.start()
                restart[0] = "accepted"
                nm.stop(forever=True, wait=True)
            except RuntimeError:
                restart[0] = "raised"
            except T.SimAbort:
                raise
            except BaseException as e:      # pylint: disable=broad-except
                errors.append(("start", repr(e)))
        try:
            s.run_main(main)
        except T.SimAbort:
            pass
    finally:
        T.uninstall()
    return s, delivered, overlap[0], errors, ndone[0], restart[0], at_stop[0]


def _notify_violation(case, s, delivered, overlap, errors, ndone=1, restart="raised", at_stop=None):
    sc = case["scenario"]
    if s.aborted and s.aborted != "finished":
        return ("hang", "the scheduler gave up: %s" % s.aborted)
    if s.thread_errors:
        return ("thread-died", "an exception escaped a thread: %s" % (s.thread_errors[:2],))
    if errors:
        return ("api-raised", "an exception left %s: %s" % errors[0])
    if overlap:
        return ("handler-overlap", "two notifications were inside the application's handler at the same time")
    want = ["p%d-%d" % (pid, i) for pid, (n, gap) in enumerate(sc["producers"]) for i in range(n)]
    complete = at_stop is None or at_stop >= len(want)      # everything had been handed to the handler before stop() was called
    dup = sorted(set(x for x in delivered if delivered.count(x) > 1))
    missing = sorted(set(want) - set(delivered))
    if dup or set(delivered) - set(want) or (complete and missing):
        return ("delivery", "notifications not delivered exactly once: missing %s duplicated %s (raising handler on %s)" % (missing[:5], dup[:5], sc["raise_on"]))
    if ndone != 1:
        return ("done-count", "the notification service was finally stopped while its loop was alive; cleanup ran %r time(s)" % (ndone,))
    if restart == "accepted":
        return ("restart-after-final-stop", "start() of the finally stopped notification service was accepted")
    for pid in range(len(sc["producers"])):
        mine = [x for x in delivered if x.startswith("p%d-" % pid)]
        if mine != ["p%d-%d" % (pid, i) for i in range(len(mine))]:
            return ("order", "notifications of producer %d delivered out of order: %s" % (pid, mine))
    return None


def _gen_notify(rng):
    prods = [[rng.randint(1, 6), rng.choice([0, 0, 0.001, 0.2])] for _ in range(rng.randint(1, 3))]
    names = ["p%d-%d" % (pid, i) for pid, (n, g) in enumerate(prods) for i in range(n)]
    return {"producers": prods, "raise_on": sorted(rng.sample(names, rng.randint(0, min(3, len(names))))), "idle": rng.choice([0.0, 0.05, 1.0])}


# ----------------------------------------------------------------------------------------------- interface
def _evaluate(case):
    det.reset_world_globals()
    if case["family"] == "service":
        s, hist, errors, info, ndone = _run_service(case)
        v = _service_violation(case, s, hist, errors, info, ndone)
        shape = "svc|%s|%s|%s" % (",".join(case["scenario"]["outcomes"]), ";".join("%s" % a[0] + ("%s%s" % (int(a[1]), int(a[2])) if a[0] == "stop" else "") for a in case["scenario"]["script"]), s.digest())
    else:
        s, delivered, overlap, errors, nd, rs, ats = _run_notify(case)
        v = _notify_violation(case, s, delivered, overlap, errors, nd, rs, ats)
        shape = "ntf|%s|%s|%s" % (case["scenario"]["producers"], case["scenario"]["raise_on"], s.digest())
    st = {"shape": shape, "nontrivial": s.switches >= 2, "fingerprints": [s.digest()], "sim_s": s.now - T.T0, "faults": {"preemptions": s.preempts, "thread-switches": s.switches},
          "probes": {"scheduling-decisions": s.decisions}, "family": case["family"], "digest": s.digest(),
          "sample": {"family": case["family"], "scenario": case["scenario"], "sched_seed": case["sched_seed"], "preempt_p": case["preempt_p"]}}
    viol = {"cls": v[0], "detail": v[1]} if v else None
    return {"case": case, "violation": viol, "stats": st}


def generate(rng, tier, index):
    family = "service" if rng.random() < 0.7 else "notify"
    case = {"prop": ID, "family": family, "sched_seed": rng.randrange(1 << 30), "preempt_p": rng.choice([0.0, 0.02, 0.1, 0.3]),
            "scenario": _gen_service(rng) if family == "service" else _gen_notify(rng), "cfg": {}}
    return _evaluate(case)


def replay(case):
    return _evaluate(dict(case))


def minimise(case, viol):
    """shrink the scenario (outcomes, script / producers) while the same violation class persists under the same scheduler seed family"""
    best = dict(case)

    def fails(c):
        try:
            r = replay(c)
        except Exception:
            return False
        return bool(r["violation"]) and r["violation"]["cls"] == viol["cls"]
    sc = dict(best["scenario"])
    for key in ("outcomes", "script", "producers", "raise_on"):
        if key not in sc:
            continue
        lst = list(sc[key])
        i = 0
        tries = 0
        while i < len(lst) and tries < 60:
            tries += 1
            if key == "script" and lst[i][0] == "start" and i == 0:
                i += 1
                continue
            cand = lst[:i] + lst[i + 1:]
            c2 = dict(best, scenario=dict(sc, **{key: cand}))
            if fails(c2):
                lst = cand
                sc[key] = cand
                best = c2
            else:
                i += 1
    # fewer pre-emptions if possible
    for p in (0.0, 0.02):
        if p < best["preempt_p"]:
            c2 = dict(best, preempt_p=p)
            if fails(c2):
                best = c2
                break
    return best


_WARM = [False]


def warmup():
    """CPython 3.12 delivers a slightly different line-event sequence the first time a code object runs under sys.settrace in a
    process; so that 'one seed = one execution' also holds for the first real run, every process first runs a fixed throw-away batch."""
    if _WARM[0]:
        return
    _WARM[0] = True
    import random as _r
    for k in range(12):
        try:
            generate(_r.Random(90000 + k), "quick", -1 - k)
        except Exception:   # pylint: disable=broad-except
            pass
