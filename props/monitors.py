"""Step-boundary invariants over the live SyncState (C11 index integrity, C08 storage == memory)."""
import msgpack

from .common import Violation
from sim.det import statemod

LOCAL, REMOTE = 0, 1


def index_violation(st):
    """C11: recompute what the indexes must contain from the entries themselves."""
    oids, paths = st._oids, st._paths
    live = st.get_all(discarded=True)
    # every slot leads to an entry that carries that id / (path, id)
    for side in (0, 1):
        for oid, ent in oids[side].items():
            if ent[side].oid != oid:
                return "id slot %r on side %d leads to an entry whose id is %r: %s" % (oid, side, ent[side].oid, ent)
        for path, d in paths[side].items():
            if not d:
                return "empty path bucket %r left behind on side %d" % (path, side)
            for oid, ent in d.items():
                if ent[side].path != path or ent[side].oid != oid:
                    return "(path,id) slot (%r,%r) on side %d leads to an entry carrying (%r,%r): %s" % (path, oid, side, ent[side].path, ent[side].oid, ent)
    # every reachable entry is found under its current id and its current path, per side
    for ent in live:
        for side in (0, 1):
            o, p = ent[side].oid, ent[side].path
            if o is not None:
                got = oids[side].get(o)
                if got is not ent:
                    return "entry not found under its id %r on side %d (slot holds %s): %s" % (o, side, got, ent)
                if p:
                    if paths[side].get(p, {}).get(o) is not ent:
                        return "entry not found under its path %r on side %d: %s" % (p, side, ent)
                    if ent not in st.lookup_path(side, p, stale=True):
                        return "lookup_path(%r) on side %d does not return the entry: %s" % (p, side, ent)
                if st.lookup_oid(side, o) is not ent and not (ent.is_discarded or ent.is_conflicted):
                    return "lookup_oid(%r) on side %d does not return the live entry %s" % (o, side, ent)
    # pending set == entries with a change flag on a side that has an id; nothing discarded
    cs = set(st._changeset_storage)       # (the raw set: on-demand mode overrides _changeset with a filtered view)
    for ent in cs:
        if not ((ent[0].changed and ent[0].oid is not None) or (ent[1].changed and ent[1].oid is not None)):
            return "pending set contains an entry without a change flag on a side that has an id: %s" % (ent,)
        if ent not in live:
            return "pending set contains an entry no index leads to (forgotten): %s" % (ent,)
    for ent in live:
        if ((ent[0].changed and ent[0].oid is not None) or (ent[1].changed and ent[1].oid is not None)) and ent not in cs:
            return "entry has a change flag with an id but is not in the pending set: %s" % (ent,)
    return None


class IndexMonitor:
    def __init__(self):
        self.checked = 0

    def __call__(self, ex, item):
        w = ex.world
        if w.cs is None:
            return
        self.checked += 1
        msg = index_violation(w.cs.state)
        if msg:
            raise Violation("index-broken", "after %s: %s" % (item, msg))


def _dec(raw):
    return msgpack.loads(raw, use_list=False, raw=False)


def storage_violation(st, rows):
    """C08: rows of the sync's tag == live non-trash entries, field for field."""
    live = [e for e in st.get_all(discarded=True)]
    by_id = {}
    for e in live:
        if e.storage_id is not None:
            if e.storage_id in by_id and by_id[e.storage_id] is not e:
                return ("dup", "two live entries share storage id %r" % (e.storage_id,), ())
            by_id[e.storage_id] = e
    for e in live:
        if e.is_trash:
            if e.storage_id is not None and e.storage_id in rows:
                return ("stale-row", "row %r still stored for a trashed entry %s" % (e.storage_id, e), ())
            continue
        if e.storage_id is None or e.storage_id not in rows:
            return ("missing-row", "live entry has no row in storage: %s" % (e,), ())
        a, b = _dec(rows[e.storage_id]), _dec(e.serialize())
        if a != b:
            diff = sorted(set(_flat_diff(a, b)))
            return ("row-differs", "row %r differs from its live entry in %s: %s" % (e.storage_id, diff, e), tuple(diff))
    for rid in rows:
        if rid not in by_id:
            return ("orphan-row", "row %r belongs to no live entry" % (rid,), ())
    return None


def _flat_diff(a, b):
    out = []
    if isinstance(a, dict) and isinstance(b, dict):
        for k in set(a) | set(b):
            if a.get(k) != b.get(k):
                if isinstance(a.get(k), (dict, tuple, list)) and isinstance(b.get(k), (dict, tuple, list)) and k in ("side0", "side1", "sides"):
                    out += _flat_diff(a.get(k), b.get(k))
                else:
                    out.append(str(k))
    elif isinstance(a, (tuple, list)) and isinstance(b, (tuple, list)) and len(a) == len(b):
        for x, y in zip(a, b):
            out += _flat_diff(x, y)
    else:
        out.append("?")
    return out


def reload_violation(w):
    """C08: a second SyncState built from a copy of the rows behaves like the live one."""
    st = w.cs.state
    from sim.world import SimStorage, Ctl
    copy = {t: dict(v) for t, v in w.sd.items()}
    st2 = statemod.SyncState(st.providers, SimStorage(copy, Ctl()), tag=st._tag, shuffle=False, prioritize=st.prioritize)

    def summ(s):
        out = {}
        for e in s.get_all(discarded=True):
            if e.is_trash:
                continue
            key = e.storage_id
            out[key] = tuple((e[i].oid, e[i].path, e[i].hash, e[i].sync_hash, e[i].sync_path, e[i].exists, bool(e[i].changed),
                              e[i]._saved_exists if hasattr(e[i], "_saved_exists") else None) for i in (0, 1)) + (e.ignored, e.otype if hasattr(e, "otype") else None)
        return out
    a, b = summ(st), summ(st2)
    if a != b:
        ks = [k for k in set(a) | set(b) if a.get(k) != b.get(k)]
        return "reloaded state differs for storage ids %s: live=%s reloaded=%s" % (ks[:3], [a.get(k) for k in ks[:3]], [b.get(k) for k in ks[:3]])
    for side in (0, 1):
        for e in st.get_all():
            if e.is_trash or e[side].oid is None:
                continue
            r = st2.lookup_oid(side, e[side].oid)
            if r is None or r.storage_id != e.storage_id:
                return "lookup_oid(%d,%r) differs after reload: live sid=%r reloaded=%s" % (side, e[side].oid, e.storage_id, r)
            if e[side].path:
                la = sorted(x.storage_id for x in st.lookup_path(side, e[side].path) if not x.is_trash)
                lb = sorted(x.storage_id for x in st2.lookup_path(side, e[side].path))
                if la != lb:
                    return "lookup_path(%d,%r) differs after reload: live=%s reloaded=%s" % (side, e[side].path, la, lb)
    pa = sorted(e.storage_id for e in st._changeset if not e.is_trash)
    pb = sorted(e.storage_id for e in st2._changeset)
    if pa != pb:
        return "pending set differs after reload: live=%s reloaded=%s" % (pa, pb)
    return None
