"""C04 Non-conflicting concurrent changes merge exactly (DESIGN 5/C04): synced base, two users confined to
disjoint partitions of the namespace, interleaved with each other and with engine steps; oracle = base+d0+d1."""
from .common import (Exec, gen_history, Violation, weighted, random_mix, drive, sched_after_op, ALL_FLAVOURS, REAL, STUBS,
                     diff_trees, tree_str)
from sim.plan import propose, expand_op
from sim import model as M

ID = "C04"
LEVEL = "exploration"
TECHNIQUE = "deterministic simulation: seeded step scheduler; commuting per-side histories over disjoint partitions checked against a reference model"
RULE = ("each run = flavour pair; base: folders /p0 and /p1 plus a random eagerly synchronised tree below them; then side 0's user works only under /p0 and "
        "side 1's user only under /p1 (create/overwrite/delete/rename/move/mkdir/rmdir/rmtree/folder rename, 1-8 ops in total), the two sequences interleaved "
        "with each other and with engine steps (eager|batched|bursty|split). Because the partitions are disjoint the sequences commute and base+d0+d1 is "
        "unique; oracle at quiet: both sides equal it exactly (nothing resurrected, nothing duplicated, no .conflicted). distinct = (history shape, schedule "
        "string, flavour); non-trivial = >=1 engine write, >=1 interleaved step and both users acted.")
ASSUMPTIONS = ["MockProvider is the cloud contract", "bounded histories", "partitions are top-level folders (moves stay inside the owner's folder)"]
LEVEL_TEXT = "seeded exploration against an exact reference model (the dict model of sim/model.py applied to both users' operations)"
LEVEL_NOTE = "trusted: MockProvider, sim/model.py; bases that fail to synchronise are discarded here and reported by C01"
PFX = ("/p0", "/p1")


def budget(tier):
    return {"quick": {"runs": 5000, "wall": 150}, "thorough": {"runs": 60000, "wall": 900}}[tier]


def _mark_synced(ex):
    w = ex.world
    r = w.quiesce()
    t0, t1 = w.tree(0), w.tree(1)
    ex.synced_ok = (r is not None and t0 == t1 and t0 is not None and not ex.nonquiescent and "/p0" in t0 and "/p1" in t0)
    ex.model = dict(t0 or {})
    ex.in_main = True
    ex.acted = set()
    return True


def _setup(ex, case):
    ex.in_main = False
    ex.synced_ok = False
    ex.model = {}
    ex.acted = set()
    ex.actions["mark_synced"] = _mark_synced
    orig_apply = ex.apply

    def apply(item, record=True):
        if ex.in_main and ex.synced_ok and item[0] == "U":
            side = item[1]
            paths = [x for x in item[3:] if isinstance(x, str) and x.startswith("/")]
            if not all(p == PFX[side] or p.startswith(PFX[side] + "/") for p in paths) or PFX[side] in paths[:1] and item[2] in ("rmtree", "rmdir", "rename_dir"):
                return False           # outside the owner's partition (can only happen in minimised plans)
            ok = orig_apply(item, record)
            if ok:
                ex.acted.add(side)
                if not M.apply(ex.model, item[2], item[3:]):
                    raise Violation("merge-mismatch", "user op %s was legal on side %d but not on base+d0+d1: the engine changed that partition" % (item, side), paths=paths)
            return ok
        return orig_apply(item, record)
    ex.apply = apply


def _verdict(ex, case):
    if not ex.synced_ok:
        return None, "discarded-base"
    if ex.nonquiescent:
        return Violation("nonquiescent", "engine still busy after the round budget")
    w = ex.world
    for side in (0, 1):
        t = w.tree(side)
        if t != ex.model:
            toks, d = diff_trees(ex.model, t or {})
            return Violation("merge-mismatch", "side %d differs from base+d0+d1 (model vs actual): %s" % (side, d.replace("local=", "model=").replace("remote=", "actual=")),
                             tokens=list(toks), paths=[s.split(" ")[0] for s in d.split("; ")])
    if len(ex.acted) < 2:
        return None, "one-user-only"
    return None


def generate(rng, tier, index):
    flav = rng.choice(ALL_FLAVOURS)
    style = weighted(rng, (("eager", 2), ("batched", 4), ("bursty", 2), ("split", 4)))
    case = {"prop": ID, "cfg": {"flavour": flav}, "style": style, "family": style}

    def body(ex):
        s0 = rng.randrange(2)
        ex.apply(["U", s0, "mkdir", "/p0"])
        ex.apply(["U", 1 - s0 if rng.random() < 0.5 else s0, "mkdir", "/p1"])
        ex.apply(["Q"])
        mixb = {"create": 4, "mkdir": 3}
        for _ in range(rng.randint(0, 5)):
            side = rng.randrange(2)
            op = propose(rng, ex.world.tree(side), mixb, ex.new_payload, prefix=PFX[rng.randrange(2)])
            if op:
                ex.apply(["U", side] + list(op))
                ex.apply(["Q"])
        ex.apply(["X", "mark_synced"])
        if not ex.synced_ok:
            return
        mixes = (random_mix(rng), random_mix(rng))
        for m in mixes:
            m["swap"] = 1           # two files of one partition exchange names through a temporary name
        n = rng.randint(1, 8)
        done = tries = 0
        while done < n and tries < n * 6:
            tries += 1
            side = rng.randrange(2)
            # propose on the model restricted to the owner's partition, excluding ops on the partition folder itself
            op = propose(rng, ex.model, mixes[side], ex.new_payload, prefix=PFX[side])
            if op is None or (op[0] in ("rmtree", "rmdir", "rename_dir") and op[1] == PFX[side]):
                continue
            if op[0] == "rename_dir" and not (op[2].startswith(PFX[side] + "/")):
                continue
            steps = expand_op(op, ex.model)
            if not steps:
                continue
            ok = True
            for k, one in enumerate(steps):
                if not ex.apply(["U", side] + list(one)):
                    ok = False
                    break
                if k < len(steps) - 1 and style == "eager":
                    ex.apply(["Q"])
            if not ok:
                continue
            done += 1
            sched_after_op(rng, ex, style)
    return drive(case, body, _verdict, setup=_setup, generating=True)


def replay(case):
    case = dict(case)

    def body(ex):
        ex.run(case["plan"])
        if not ex.in_main:
            ex.apply(["X", "mark_synced"], record=False)
    return drive(case, body, _verdict, setup=_setup)
