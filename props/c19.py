"""C19 Hierarchical path/id cache coherence (DESIGN 5/C19): history search with structural invariants and per-call postconditions.
The degenerate corner of the technique: no clock, thread or I/O - only the history quantifier, minimisation and replay."""
from sim import det
from cloudsync.hierarchical_cache import HierarchicalCache
from cloudsync.types import DIRECTORY, FILE
from cloudsync.providers.mock import MockProvider

ID = "C19"
ENGINE = "sim-seq"
LEVEL = "exploration"
TECHNIQUE = "seeded operation-sequence search against structural invariants and per-call postconditions, with shrinking and replay (no schedule/clock/fault dimension: the history quantifier only)"
RULE = ("each case = case-sensitive or case-insensitive provider and a sequence of 1-15 cache calls drawn from create, mkdir, rename, delete(path), delete(oid), set_oid, update(type/oid), set_metadata over "
        "3 names x 3 levels x 5 ids (so id collisions, overwrites, type changes, ancestor/descendant renames all occur; on case-insensitive providers paths are addressed in mixed case). After EVERY call: "
        "the tree reachable from the root has no cycle, child/parent links agree, no id is held by two nodes, every id in the id view is reachable from the root, get_path(get_oid(p)) == p and "
        "get_oid(get_path(i)) == i for everything cached; and the call's own postcondition against a shadow of the previous state (created/renamed node is where it should be with its id and type, a "
        "renamed folder carried its whole subtree, a deleted or type-replaced folder's descendants' ids are all forgotten) and - the dictionary model's metadata half - a call changes the metadata of no node but the one it addresses (nodes compared by identity before/after, so moves do not matter), the addressed node holds what the documentation says (update: merged when keep, replaced otherwise, exactly the given dict for a node the call made; set_metadata: the given dict) and a node made without metadata starts empty; update and set_metadata carry random metadata over a two-key template. Any exception other than the documented ValueError for renaming the root is a "
        "violation. distinct = op-kind sequence with names abstracted; non-trivial = >=2 nodes existed when the last call ran.")
ASSUMPTIONS = ["a folder is never renamed into its own subtree (not a legal call)", "ids are strings (the root id's type)", "no dict model of the eviction rules: the oracle is structural plus per-call postconditions",
               "not judged: the metadata of a node whose id the same update call changes (documented as 're-made'; what it should hold is not stated), nor metadata after a call that hands a node an id held by its own relative (KF-CACHE-ID-OF-RELATIVE)"]
LEVEL_TEXT = "seeded history search; claimed at exploration level with the caveat that nothing but the history quantifier is exercised (stated in DESIGN section 5/C19)"
LEVEL_NOTE = "trusted: the structural walk (props/c19.py) reads the cache's private tables (_root, _oid_to_node, Node.children) because the property is about exactly those"
REAL = ["HierarchicalCache", "Provider.normalize_path / split of MockProvider (path helpers)"]
STUBS = ["none (pure data structure)"]

NAMES = ("a", "b", "c")
IDS = ("1", "2", "3", "4", "5")


def budget(tier):
    return {"quick": {"runs": 20000, "wall": 120}, "thorough": {"runs": 240000, "wall": 900}}[tier]


def _provider(cs):
    det.reset_world_globals()
    return MockProvider(oid_is_path=False, case_sensitive=cs)


def _norm(prov, p):
    return prov.normalize_path(p)


def _snapshot(cache):
    """walk from the root: {norm path: (type, oid)}; raises on structural problems"""
    out = {}
    seen = set()
    stack = [(cache._root, "")]
    ids = {}
    while stack:
        node, path = stack.pop()
        if id(node) in seen:
            raise AssertionError("cycle: node %r reached twice" % (path,))
        seen.add(id(node))
        if path:
            out[path] = (node.type, node.oid)
        if node.oid is not None:
            if node.oid in ids:
                raise AssertionError("id %r held by two nodes: %r and %r" % (node.oid, ids[node.oid], path or "/"))
            ids[node.oid] = path or "/"
        for name, ch in node.children.items():
            if ch.name != name:
                raise AssertionError("child key %r holds a node named %r under %r" % (name, ch.name, path or "/"))
            if ch.parent is not node:
                raise AssertionError("node %r/%s does not point back to its parent" % (path, name))
            stack.append((ch, path + "/" + name))
    return out, ids, seen


def _structural(cache, prov):
    try:
        tree, ids, seen = _snapshot(cache)
    except AssertionError as e:
        return str(e)
    for oid, node in cache._oid_to_node.items():
        if id(node) not in seen:
            return "id %r in the id view belongs to a node that is not reachable from the root" % (oid,)
        if node.oid != oid:
            return "id view slot %r leads to a node whose id is %r" % (oid, node.oid)
    for oid, path in ids.items():
        if cache._oid_to_node.get(oid) is None:
            return "node %r holds id %r but the id view does not know it" % (path, oid)
        gp = cache.get_path(oid)
        want = path if path != "/" else gp
        if path != "/" and (gp is None or _norm(prov, gp) != _norm(prov, path)):
            return "get_path(%r) = %r but the node holding that id is at %r" % (oid, gp, path)
        if path != "/" and cache.get_oid(path) != oid:
            return "get_oid(%r) = %r, expected %r (inverse views disagree)" % (path, cache.get_oid(path), oid)
    return None


def _under(p, q):
    return p == q or p.startswith(q + "/")


def _apply(cache, prov, op, before, ids_before):
    """perform one call; return a postcondition failure string or None.  `before` = snapshot before the call."""
    k = op[0]
    n = lambda p: _norm(prov, p)       # noqa: E731
    if k == "create" or k == "mkdir":
        _, path, oid = op
        getattr(cache, k)(path, oid)
        typ = FILE if k == "create" else DIRECTORY
        if cache.get_type(path=path) != typ:
            return "%s(%r,%r): type at the path is %r" % (k, path, oid, cache.get_type(path=path))
        if cache.get_oid(path) != oid:
            return "%s(%r,%r): get_oid says %r" % (k, path, oid, cache.get_oid(path))
        if oid is not None and n(cache.get_path(oid) or "") != n(path):
            return "%s(%r,%r): get_path(%r) says %r" % (k, path, oid, oid, cache.get_path(oid))
        old = before.get(n(path))
        if old and old[0] == DIRECTORY:
            for p, (t, i) in before.items():
                if p != n(path) and _under(p, n(path)) and i is not None and i != oid and cache.get_path(i) is not None and _under(n(cache.get_path(i)), n(path)) and not (k == "mkdir"):
                    return "%s over folder %r: descendant id %r still resolves to %r" % (k, path, i, cache.get_path(i))
    elif k == "rename":
        _, old, new = op
        node_before = before.get(n(old))
        cache.rename(old, new)
        if node_before:
            t, oid = node_before
            if cache.get_type(path=new) != t or cache.get_oid(new) != oid:
                return "rename(%r,%r): target holds (%r,%r), the renamed node was (%r,%r)" % (old, new, cache.get_type(path=new), cache.get_oid(new), t, oid)
            for p, (t2, i2) in before.items():
                if p != n(old) and _under(p, n(old)):
                    np = n(new) + p[len(n(old)):]
                    if cache.get_type(path=np) != t2 or cache.get_oid(np) != i2:
                        return "rename(%r,%r): descendant %r (%r,%r) did not move to %r (found %r,%r)" % (old, new, p, t2, i2, np, cache.get_type(path=np), cache.get_oid(np))
            if not _under(n(new), n(old)) and cache.get_type(path=old) is not None and n(old) != n(new):
                return "rename(%r,%r): something is still cached at the old path" % (old, new)
    elif k == "delete_path":
        _, path = op
        cache.delete(path=path)
        if cache.get_type(path=path) is not None and n(path) != "/":
            return "delete(path=%r): the path is still cached" % (path,)
        for p, (t, i) in before.items():
            if _under(p, n(path)) and i is not None and cache.get_path(i) is not None:
                return "delete(path=%r): id %r of %r is still resolvable (%r)" % (path, i, p, cache.get_path(i))
    elif k == "delete_oid":
        _, oid = op
        held = ids_before.get(oid)
        cache.delete(oid=oid)
        if held and held != "/" and cache.get_path(oid) is not None:
            return "delete(oid=%r): the id is still resolvable" % (oid,)
        if held and held != "/":
            for p, (t, i) in before.items():
                if _under(p, held) and i is not None and cache.get_path(i) is not None:
                    return "delete(oid=%r) of folder %r: descendant id %r still resolvable" % (oid, held, i)
    elif k == "set_oid":
        _, path, oid, typ = op
        cache.set_oid(path, oid, DIRECTORY if typ == "d" else FILE)
        if cache.get_oid(path) != oid or n(cache.get_path(oid) or "") != n(path):
            return "set_oid(%r,%r): get_oid=%r get_path=%r" % (path, oid, cache.get_oid(path), cache.get_path(oid))
    elif k == "update":
        path, typ, oid = op[1:4]
        t = DIRECTORY if typ == "d" else FILE
        old = before.get(n(path))
        if len(op) > 4:
            cache.update(path, t, oid=oid, metadata=dict(op[4]) if op[4] else None, keep=op[5])
        else:
            cache.update(path, t, oid=oid)
        if cache.get_type(path=path) != t:
            return "update(%r,%s,%r): type is %r" % (path, typ, oid, cache.get_type(path=path))
        if oid is not None and cache.get_oid(path) != oid:
            return "update(%r,%s,%r): get_oid says %r" % (path, typ, oid, cache.get_oid(path))
        if old and old[0] == DIRECTORY and t == FILE:
            for p, (t2, i2) in before.items():
                if p != n(path) and _under(p, n(path)) and i2 is not None and i2 != oid and cache.get_path(i2) is not None:
                    return "update(%r -> file): a folder was replaced but descendant id %r of %r still resolves to %r" % (path, i2, p, cache.get_path(i2))
                if p != n(path) and _under(p, n(path)) and i2 is not None and i2 != oid and cache.get_type(oid=i2) is not None:
                    return "update(%r -> file): a folder was replaced but get_type(oid=%r) still answers for its descendant %r" % (path, i2, p)
    elif k == "set_metadata":
        path = op[1]
        cache.set_metadata(dict(op[2]) if len(op) > 2 and op[2] else {}, path=path)
    return None


META_TEMPLATE = {"size": int, "hash": str}


def _walk_nodes(cache):
    out, stack = [], [cache._root]
    while stack:
        nd = stack.pop()
        out.append(nd)
        stack.extend(nd.children.values())
    return out


def _meta_before(cache, op):
    """strong references to every node plus a copy of its metadata (the references keep id() from being reused during the call)"""
    target = cache._get_node(path=op[1]) if op[0] in ("update", "set_metadata") else None
    return [(nd, dict(nd.metadata)) for nd in _walk_nodes(cache)], target


def _meta_check(cache, prov, op, before, mb):
    """the dictionary model's metadata half: a call changes the metadata of no node but the one it addresses, that one holds what the call's
    documentation says (merged when keep, replaced otherwise, exactly the given dict for a node the call made), and a node made without
    metadata starts empty.  Not judged: the metadata of a node whose id the same update call changes (the documentation says the node is
    re-made; what its metadata should be is not stated)."""
    nodes_before, target = mb
    alive = {id(nd) for nd in _walk_nodes(cache)}
    for nd, m in nodes_before:
        if id(nd) in alive and nd is not target and nd.metadata != m:
            return "%s: metadata of %r, a node the call did not address, changed from %r to %r" % (op, nd.full_path() or "/", m, nd.metadata)
    k = op[0]
    n = lambda p: _norm(prov, p)       # noqa: E731
    if k in ("create", "mkdir") and n(op[1]) not in before:
        got = cache.get_metadata(path=op[1])
        if got is not None and got != {}:
            return "%s: a node made without metadata holds %r" % (op, got)
    elif k == "set_metadata" and target is not None:
        want = dict(op[2]) if len(op) > 2 and op[2] else {}
        if cache.get_metadata(path=op[1]) != want:
            return "%s: get_metadata says %r" % (op, cache.get_metadata(path=op[1]))
    elif k == "update":
        typ, oid = op[2], op[3]
        m = dict(op[4]) if len(op) > 4 and op[4] else {}
        keep = op[5] if len(op) > 5 else True
        t = DIRECTORY if typ == "d" else FILE
        old = [mm for nd, mm in nodes_before if nd is target]
        if target is None or target.type != t or not old:
            want = m
        elif oid is None or target.oid == oid or old and before.get(n(op[1]), (None, None))[1] is None:
            want = dict(old[0], **m) if keep else m
        else:
            return None
        if cache.get_metadata(path=op[1]) != want:
            return "%s: get_metadata says %r, the call's documentation implies %r" % (op, cache.get_metadata(path=op[1]), want)
    return None


def _run(case):
    prov = _provider(case["cfg"]["case_sensitive"])
    cache = HierarchicalCache(prov, "root", metadata_template=META_TEMPLATE)
    if cache._root.metadata:
        # isolation between cases: a metadata dict shared between nodes (and so between cache objects) would carry one case's writes into the
        # next case of the same worker process, and such a violation would not replay in a fresh interpreter.  Emptying it in place restores
        # 'one case = one execution'; the write that polluted it is reported in the case that makes it (non-interference, root included)
        cache._root.metadata.clear()
    nodes = 0
    for i, op in enumerate(case["plan"]):
        try:
            before, ids_before, _ = _snapshot(cache)
        except AssertionError as e:
            return ("structure", "before op #%d: %s" % (i, e), None), nodes
        nodes = len(before)
        # legality: a folder is never renamed into its own subtree; the root is never the target
        if op[0] == "rename":
            o, nw = _norm(prov, op[1]), _norm(prov, op[2])
            if o == nw or _under(nw, o) or _under(o, nw) or o == "/" or nw == "/":
                continue            # (nor onto itself, its own subtree, or one of its own ancestors)
        mech = None
        oid = op[2] if op[0] in ("create", "mkdir", "set_oid") else (op[3] if op[0] == "update" else None)
        if oid is not None and oid in ids_before and op[0] != "rename":
            holder = ids_before[oid]
            target = _norm(prov, op[1])
            if holder != "/" and holder != target and (_under(target, holder) or _under(holder, target)):
                mech = "id-held-by-relative"
        mb = _meta_before(cache, op)
        try:
            msg = _apply(cache, prov, op, before, ids_before)
        except ValueError as e:
            if op[0] == "rename":
                continue
            return ("exception", "op #%d %s raised %r" % (i, op, e), mech), nodes
        except Exception as e:      # pylint: disable=broad-except
            return ("exception", "op #%d %s raised %s: %s" % (i, op, type(e).__name__, str(e)[:120]), mech), nodes
        if msg:
            return ("postcondition", "op #%d: %s" % (i, msg), mech), nodes
        if mech is None:
            msg = _meta_check(cache, prov, op, before, mb)
            if msg:
                return ("metadata", "op #%d: %s" % (i, msg), mech), nodes
        del mb
        s = _structural(cache, prov)
        if s:
            return ("structure", "after op #%d %s: %s" % (i, op, s), mech), nodes
    return None, nodes


def _evaluate(case):
    v, nodes = _run(case)
    shape = "%s|%s" % (case["cfg"]["case_sensitive"], " ".join(o[0] + str(len([x for x in o[1:2] if isinstance(x, str) and x.count("/")]) and o[1].count("/")) for o in case["plan"]))
    st = {"shape": shape, "nontrivial": nodes >= 2, "fingerprints": [], "sim_s": 0.0, "faults": {}, "probes": {}, "family": "cs" if case["cfg"]["case_sensitive"] else "ci",
          "sample": {"cfg": case["cfg"], "plan": case["plan"]}}
    viol = {"cls": v[0], "detail": v[1], "mech": v[2] or ""} if v else None
    return {"case": case, "violation": viol, "stats": st}


def _path(rng, ci):
    depth = rng.randint(1, 3)
    parts = [rng.choice(NAMES) for _ in range(depth)]
    if ci and rng.random() < 0.3:
        parts = [p.upper() if rng.random() < 0.5 else p for p in parts]
    return "/" + "/".join(parts)


def _meta(rng):
    m = {}
    if rng.random() < 0.6:
        m["size"] = rng.randint(0, 3)
    if rng.random() < 0.6:
        m["hash"] = rng.choice("xyz")
    return m


def generate(rng, tier, index):
    cs = rng.random() < 0.5
    ci = not cs
    ops = []
    for _ in range(rng.randint(1, 15)):
        k = rng.choice(["create", "mkdir", "mkdir", "rename", "delete_path", "delete_oid", "set_oid", "update", "set_metadata"])
        if k in ("create", "mkdir"):
            ops.append([k, _path(rng, ci), rng.choice(IDS + ((None,) if k == "mkdir" else ()))])
        elif k == "rename":
            ops.append([k, _path(rng, ci), _path(rng, ci)])
        elif k == "delete_path":
            ops.append([k, _path(rng, ci)])
        elif k == "delete_oid":
            ops.append([k, rng.choice(IDS)])
        elif k == "set_oid":
            ops.append([k, _path(rng, ci), rng.choice(IDS), rng.choice("fd")])
        elif k == "update":
            ops.append([k, _path(rng, ci), rng.choice("fd"), rng.choice(IDS + (None,)), _meta(rng) if rng.random() < 0.6 else None, rng.random() < 0.6])
        else:
            ops.append([k, _path(rng, ci), _meta(rng)])
    return _evaluate({"prop": ID, "cfg": {"case_sensitive": cs}, "plan": ops, "family": "cs" if cs else "ci"})


def replay(case):
    return _evaluate(dict(case))
