"""C10 Transient provider faults: survive, report, retry, still converge (DESIGN 5/C10)."""
from .common import (Exec, Violation, weighted, random_mix, drive, sched_after_op, convergence_violation, loss_violation,
                     ALL_FLAVOURS, REAL, STUBS, diff_trees, strip_conflicted, tree_str)
from sim.plan import propose
from sim.world import FAULT_NOTE
from sim.det import CLOCK
from cloudsync.notification import NotificationType

ID = "C10"
LEVEL = "exploration"
TECHNIQUE = "deterministic simulation with fault injection at the provider seam: a seeded fault kind per engine API call index (incl. error-after-effect and mid-batch feed breaks), per-path permanent failures lifted later"
RULE = ("each run = flavour pair, history of 1-7 user ops, schedule style, and a swarm-chosen fault configuration: enabled kinds subset of {temporary, disconnected (provider really disconnected), "
        "token expired, out of space, temporary raised AFTER the call took effect, event feed breaking mid-batch} at a per-call rate of 1-10%; family 'lock' instead makes one path permanently fail on "
        "the receiving side (mock per-path lock), checks that every other object converges while it still fails, lifts the lock and checks that it converges too. Faults stop before the epilogue. "
        "Oracles: every injected temporary / disconnected / out-of-space fault is followed, within the same service step, by a notification of the matching kind to the application handler; the "
        "emulated service loop never sees anything but what Runnable.run handles; after faults stop: convergence and no user content lost. No timing oracle while faults flow. "
        "distinct = (history shape, schedule, flavour, multiset of fired fault kinds); non-trivial = >=1 fault actually fired and >=1 engine write.")
ASSUMPTIONS = ["faults are injected on the engine's calls only (users talk to the cloud directly)", "MockProvider is the cloud contract", "bounded histories",
               "the step driver emulates Runnable.run's exception handling; thread liveness itself is C18's subject"]
LEVEL_TEXT = "seeded exploration of (history x schedule x fault assignment); each fault is checked individually for its notification, outcomes at quiet"
LEVEL_NOTE = "trusted: the provider wrapper (sim/world.py) as the fault seam; the un-notified call site SyncState.change->get_latest->info_oid is a recorded known finding identified by its call stack"

KINDS = ("temp", "disc", "token", "space", "temp-after", "midbatch")


def budget(tier):
    return {"quick": {"runs": 5000, "wall": 170}, "thorough": {"runs": 60000, "wall": 900}}[tier]


def _setup(ex, case):
    w = ex.world
    ex.locked = ({}, {})
    fc = case.get("faults") or {}
    kinds = [k for k in fc.get("kinds", []) if k != "midbatch"]
    rate = fc.get("rate", 0.0)
    table = case.get("fault_table")
    if table is not None:
        # replay: the recorded assignment call index -> (kind, after)
        w.ctl.faults = {int(k): tuple(v) for k, v in table.items()}
    elif kinds and rate:
        import random
        frng = random.Random(case.get("fault_seed", 0))

        def gen(idx, side, name, a):
            if frng.random() < rate:
                k = frng.choice(kinds)
                if k == "temp-after":
                    return ("temp", True)
                return (k, False)
            return None
        w.ctl.fault_gen = gen

    def x_lock(exx, side, rel):
        p = w.provs[side]
        full = w.roots[side] + rel
        p._locked_for_test.add(full)
        exx.locked[side][rel] = True
        return True

    def x_unlock(exx, side, rel):
        p = w.provs[side]
        p._locked_for_test.discard(w.roots[side] + rel)
        exx.locked[side].pop(rel, None)
        return True

    def x_check_others(exx, rounds):
        """while the path still fails every other object must converge"""
        for _ in range(rounds):
            for wh in (0, 1, 2):
                w.step(wh)
            CLOCK.now += 0.05
        bad = set(exx.locked[0]) | set(exx.locked[1])

        def keep(t):
            return {k: v for k, v in strip_conflicted(t or {}).items() if not any(k == b or k.startswith(b + "/") for b in bad)}
        a, b = keep(w.tree(0)), keep(w.tree(1))
        if a != b:
            toks, d = diff_trees(a, b)
            raise Violation("blocked-others", "path(s) %s keep failing and other objects did not synchronise meanwhile: %s" % (sorted(bad), d), tokens=list(toks),
                            paths=[s.split(" ")[0] for s in d.split("; ")])
        exx.probes = dict(getattr(exx, "probes", {}))
        exx.probes["lock-intermediate-checks"] = exx.probes.get("lock-intermediate-checks", 0) + 1
        return True
    ex.actions.update({"lock": x_lock, "unlock": x_unlock, "check_others": x_check_others})
    orig_epilogue = ex.epilogue

    def epilogue(cap=600):
        for side in (0, 1):              # 'once it stops failing': every remaining per-path failure is lifted before the final quiet
            for rel in list(ex.locked[side]):
                x_unlock(ex, side, rel)
        return orig_epilogue(cap)
    ex.epilogue = epilogue
    orig_apply = ex.apply

    def apply(item, record=True):
        if item[0] == "Q" and (ex.locked[0] or ex.locked[1]):
            return False                # while a path keeps failing the engine is legitimately never quiet
        if item[0] == "U":
            side = item[1]
            paths = [x for x in item[3:] if isinstance(x, str) and x.startswith("/")]
            for lk in ex.locked[side]:
                if any(p == lk or p.startswith(lk + "/") or lk.startswith(p + "/") for p in paths):
                    return False        # the user cannot touch a locked object either
        return orig_apply(item, record)
    ex.apply = apply


def _notification_violation(ex):
    w = ex.world
    notes = {}
    for step_no, src, ntype, path in w.notes:
        notes.setdefault(step_no, []).append(ntype)
    # (report an un-notified fault at any other call site before one at the single site that is a recorded finding)
    fired = sorted(w.ctl.fired, key=lambda f: (str(f[6]).endswith("unconditionally_get_latest"), f[0]))
    for idx, side, name, kind, after, step_no, stack in fired:
        want = FAULT_NOTE.get(kind)
        if kind == "temp-midbatch":
            want = NotificationType.TEMPORARY_ERROR
        if want is None:
            continue
        if want not in notes.get(step_no, []):
            return Violation("fault-not-notified", "fault %s%s on %s (side %d, engine call #%d, step %d) was not followed by a %s notification; notifications of that step: %s; call path: %s" % (
                kind, " (after effect)" if after else "", name, side, idx, step_no, want.value, [n.value for n in notes.get(step_no, [])], stack), mech=stack, kind=kind)
    return None


def _verdict(ex, case):
    w = ex.world
    if getattr(ex, "probes", None) is None:
        ex.probes = {}
    nv = _notification_violation(ex)
    if nv:
        return nv
    v = convergence_violation(ex)
    if v:
        if v.cls == "diverged":
            v.kw["paths"] = [s.split(" ")[0] for s in v.detail.split("; ")]
        return v
    return loss_violation(ex)


def _finalise(case, res, ex_holder):
    return res


def generate(rng, tier, index):
    flav = rng.choice(ALL_FLAVOURS)
    style = weighted(rng, (("eager", 1), ("batched", 4), ("bursty", 2), ("split", 4)))
    family = weighted(rng, (("faults", 8), ("lock", 2)))
    case = {"prop": ID, "cfg": {"flavour": flav}, "style": style, "family": family}
    holder = {}
    if family == "faults":
        kinds = [k for k in KINDS if rng.random() < 0.5] or ["temp"]
        case["faults"] = {"kinds": kinds, "rate": rng.choice([0.01, 0.02, 0.05, 0.1])}
        case["fault_seed"] = rng.randrange(1 << 30)
    mix = random_mix(rng)
    midfail = 0.4 if family == "faults" and "midbatch" in case["faults"]["kinds"] else 0.0

    def body(ex):
        holder["ex"] = ex
        w = ex.world
        if family == "lock":
            side = rng.randrange(2)
            # the origin user creates things; one of them is locked on the receiving side before the engine gets there
            n = rng.randint(2, 5)
            made = []
            for _ in range(n):
                op = propose(rng, w.tree(side), {"create": 4, "mkdir": 2}, ex.new_payload)
                if op and ex.apply(["U", side] + list(op)):
                    made.append(op[1])
            files = [m for m in made if (w.tree(side) or {}).get(m, ("x",))[0] == "f"]
            if not files:
                return
            victim = rng.choice(files)
            ex.apply(["X", "lock", 1 - side, victim])
            for _ in range(rng.randrange(0, 3)):
                op = propose(rng, w.tree(side), {"create": 3, "write": 3, "mkdir": 1}, ex.new_payload)
                if op:
                    ex.apply(["U", side] + list(op))
                    sched_after_op(rng, ex, style)
            ex.apply(["X", "check_others", 40])
            ex.apply(["X", "unlock", 1 - side, victim])
            return
        from sim.plan import gen_history
        gen_history(rng, ex, rng.randint(1, 7), style=style, mix=mix, midfail=midfail)
    res = drive(case, body, _verdict, setup=_setup, generating=True,
                shape_extra=lambda ex: "|" + ",".join(sorted(set(f[3] + ("-after" if f[4] else "") for f in ex.world.ctl.fired))))
    ex = holder.get("ex")
    if ex is not None:
        # record the fault assignment explicitly so that the case replays without the generator
        res["case"]["fault_table"] = {str(k): list(v) for k, v in ex.world.ctl.faults.items()}
        res["stats"]["nontrivial"] = bool(res["stats"]["nontrivial"] and (ex.world.ctl.fired or family == "lock"))
    return res


def replay(case):
    case = dict(case)
    return drive(case, lambda ex: ex.run(case["plan"]), _verdict, setup=_setup,
                 shape_extra=lambda ex: "|" + ",".join(sorted(set(f[3] + ("-after" if f[4] else "") for f in ex.world.ctl.fired))))
