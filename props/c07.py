"""C07 Crash consistency (DESIGN 5/C07): every storage write and every engine-issued provider write of a run is
taken, one at a time, as the instant of process death; restart over the durable state; run to quiet."""
from .common import (Exec, gen_history, Violation, weighted, random_mix, base_stats, FingerprintMonitor, convergence_violation,
                     loss_violation, ALL_FLAVOURS, REAL, STUBS, diff_trees, strip_conflicted)
from sim.world import SimCrash
from sim.plan import canon_user_ops, schedule_sig

ID = "C07"
LEVEL = "fault_enumeration"
SELFTEST_REPLAY_COMPARABLE = False      # generate() = a base run plus all its crash runs; replay() = one crash run
TECHNIQUE = "deterministic simulation with exhaustive crash-point enumeration per run: SimCrash before storage write k / after provider write k for every k, restart on durable state only"
RULE = ("a seeded base run (flavour, in 30% of runs 1-4 objects already present under the roots before the first start with the providers' read positions at 'latest', 1-6 user ops, either one-sided or two-sided over disjoint partitions /p0 and /p1 (two users fighting over the same path while the process dies has no defined outcome beyond C02's no-loss, and is left to C02), schedule style) is executed fault-free and its storage writes Ns and engine-issued provider writes Np are counted; "
        "then for EVERY k in 1..Ns the identical plan is re-executed with the process dying immediately before storage write k, and for EVERY k in 1..Np immediately after provider "
        "write k (SimCrash derives from BaseException, in-memory engine dropped, providers' volatile session state reset, storage dict and provider contents at that instant are the "
        "durable state); a new engine is started, the remaining user operations of the plan are applied (variant 'resume') or not (variant 'halt'), and it is run to quiet. Oracles: "
        "at the instant of death, on the durable state: an object id that entered a row together with last-synced markers during the dying step is held by the provider with the recorded hash, and (stable-id sides) an object newly recorded as deleted is gone; after the restart: convergence, no user content lost, and for one-sided histories exact mirror without .conflicted. evaluations = crash runs (base runs not counted); distinct = (history shape, "
        "schedule, flavour, crash kind, engine call site of the crashing write); non-trivial = the crash hit while >=1 entry was pending or mid-transfer (the crashing step had issued a write).")
ASSUMPTIONS = ["fault model as stated by the property: death before a storage write or after a provider write; storage writes are atomic and durable once made (torn/lost writes are outside the statement)",
               "MockProvider contents at the crash instant are what the cloud holds", "every run starts with one loop of each service on the (still empty) roots, so each side's first cursor exists before users act: a deletion made before the engine ever obtained a cursor for that account is not knowable from a walk and is outside the statement (the crash points inside those first loops are still enumerated)",
               "bounded histories (<=6 ops), base runs that are not themselves clean are C01's business and skipped"]
LEVEL_TEXT = ("fault enumeration: within each explored run the crash-point space (all storage and provider writes) is covered exhaustively; across runs the histories/schedules are a seeded sample")
LEVEL_NOTE = "trusted: World.shutdown(graceful=False)/up emulation of process death, SimStorage as the durable medium"


def budget(tier):
    return {"quick": {"runs": 400, "wall": 200}, "thorough": {"runs": 4800, "wall": 900}}[tier]


def _instant_violation(w):
    """The statement's middle clause, evaluated at the instant of death on the durable state: "storage is never left describing
    work as done that the providers do not reflect".  Only rows written during the step that dies are looked at (no user acts
    inside a step, so whatever such a row newly claims is the engine's own doing or was read from the provider in this step):
    an object id that enters a row together with last-synced markers (the destination of the engine's own create/mkdir) must be an
    object the provider holds, with the recorded content hash; on sides with stable ids, a side newly recorded as deleted must be
    gone.  (The origin side's markers and re-uploads are not judged here: the engine's belief about an object a user changed
    before this step is legitimately stale.)"""
    from .monitors import _dec
    snap = getattr(w, "step_snap", None)
    if snap is None or w.cs is None:
        return None
    tag = w.cs.state._tag
    now, old = w.sd.get(tag, {}), snap.get(tag, {})
    known = (set(), set())      # ids storage knew per side when the step began (a side state can MOVE between rows when entries merge)
    for raw0 in old.values():
        r0 = _dec(raw0)
        for s in (0, 1):
            o = r0["side%d" % s].get("oid")
            if o is not None:
                known[s].add(o)
    for eid in sorted(now):
        raw = now[eid]
        if old.get(eid) == raw:
            continue
        row = _dec(raw)
        prev = _dec(old[eid]) if eid in old else None
        if row.get("ignored") not in (None, "", "none"):
            continue
        for s in (0, 1):
            sd = row["side%d" % s]
            ps = prev["side%d" % s] if prev else {}
            oid = sd.get("oid")
            if oid is None:
                continue
            p = w.provs[s]
            if sd.get("exists") == "exists" and sd.get("sync_path") and ps.get("oid") is None and not ps.get("sync_path") and oid not in known[s]:
                # an id that enters the row together with last-synced markers is the destination of the engine's own create/mkdir
                # (events bring ids without markers; a rename on a path-id side changes the id but keeps the old marker)
                info = w._as_user(p, lambda: p.info_oid(oid))
                if info is None:
                    return Violation("recorded-before-done", "at the crash instant row %r (written in the dying step) records side %d as synchronised at %r with new id %r, "
                                     "but the provider holds no such object" % (eid, s, sd.get("sync_path"), oid), paths=[])
                if sd.get("otype") == "file" and sd.get("hash") is not None and info.hash != sd.get("hash"):
                    return Violation("recorded-before-done", "at the crash instant row %r records new object %r on side %d with a content hash the provider's object does not have" % (eid, oid, s), paths=[])
            elif sd.get("exists") == "trashed" and ps.get("exists") == "exists" and ps.get("oid") == oid and not p.oid_is_path:
                info = w._as_user(p, lambda: p.info_oid(oid))
                if info is not None:
                    return Violation("recorded-before-done", "at the crash instant row %r records object %r on side %d as deleted, but the provider still holds it" % (eid, oid, s), paths=[])
    return None


def _crash_run(case, crash):
    """one execution of case['plan'] with the given crash (kind, k) or None; returns (ex, crashed_at_item, site)"""
    ex = Exec(case["cfg"])
    w = ex.world
    if crash:
        if crash[0] == "sw":
            w.ctl.crash_at_sw = crash[1]
        else:
            w.ctl.crash_at_pw = crash[1]
    plan = case["plan"]
    i = 0
    site = None
    crashed = False

    def recover():
        nonlocal site
        last = w.ctl.writes[-1] if w.ctl.writes else None
        site = "%s@step%s" % (crash[0], "") + (":" + last[2] if crash[0] == "pw" and last else "")
        w.ctl.crash_at_sw = w.ctl.crash_at_pw = None
        w.ctl.engine = False
        w.ctl.depth = 0
        if getattr(ex, "instant", None) is None:
            ex.instant = _instant_violation(w)
        ex.instants_checked = getattr(ex, "instants_checked", 0) + 1
        w.shutdown(graceful=False)
        w.up("intact")

    while i < len(plan):
        it = plan[i]
        i += 1
        try:
            ex.apply(it, record=False)
        except SimCrash:
            crashed = True
            ex.crash_item = i - 1
            recover()
            if case.get("variant") == "halt":
                break
    try:
        if w.cs is None:
            w.up("intact")
        ex.epilogue()
    except SimCrash:
        crashed = True
        ex.crash_item = len(plan)
        recover()
        ex.nonquiescent = False
        ex.epilogue()
    return ex, crashed, site


def _oracle(ex, case):
    v = _oracle0(ex, case)
    if v is not None:
        v.kw["crash_item"] = getattr(ex, "crash_item", None)
    return v


def _oracle0(ex, case):
    if getattr(ex, "instant", None) is not None:
        return ex.instant
    v = convergence_violation(ex)
    if v:
        if v.cls == "diverged":
            v.kw["paths"] = [s.split(" ")[0] for s in v.detail.split("; ")]
        return v
    lv = loss_violation(ex)
    if lv:
        return lv
    sides = set(it[1] for it in case["plan"] if it[0] == "U") | set(x[0] for x in case["cfg"].get("prepop", ()))
    if len(sides) <= 1:
        t0, t1 = ex.world.tree(0), ex.world.tree(1)
        if t0 != t1:
            toks, d = diff_trees(t0, t1)
            return Violation("conflicted-in-one-sided", "one-sided history, crash, restart: " + d, tokens=list(toks), paths=[s.split(" ")[0] for s in d.split("; ")])
    return None


def _shape(case, crash, site):
    return "%s|%s|%s|%s|%s|%s" % (canon_user_ops(case["plan"]), schedule_sig(case["plan"]), case["cfg"]["flavour"], case.get("variant"), crash[0] if crash else "-", site)


def generate(rng, tier, index):
    flav = rng.choice(ALL_FLAVOURS)
    style = weighted(rng, (("eager", 2), ("batched", 4), ("bursty", 2), ("split", 3)))
    sides = rng.choice([(0,), (1,), (0, 1)])
    disjoint = len(sides) == 2         # two-sided histories work on disjoint partitions /p0 (side 0) and /p1 (side 1): see RULE
    variant = rng.choice(["resume", "halt"])
    cfg = {"flavour": flav}
    if rng.random() < 0.3:
        # the roots already hold content when the engine starts for the first time: the initial walk matters
        from sim import model as M
        from sim.plan import propose
        pre = []
        trees = ({}, {})
        ctr = [0]

        def pay():
            ctr[0] += 1
            return "p%d" % ctr[0]
        for _ in range(rng.randint(1, 4)):
            s = rng.choice(sides)
            op = propose(rng, trees[s], {"create": 3, "mkdir": 2}, pay)
            if op and M.apply(trees[s], op[0], op[1:]):
                pre.append([s] + list(op))
        cfg["prepop"] = pre
    case = {"prop": ID, "cfg": cfg, "style": style, "family": "crash-" + variant + ("-prepop" if cfg.get("prepop") else ""), "variant": variant}
    ex = Exec(cfg)
    try:
        if disjoint:
            ex.apply(["U", 0, "mkdir", "/p0"])
            ex.apply(["U", 1, "mkdir", "/p1"])
        for wh in (2, 0, 1):        # (the sync service validates the roots first; the event services need that) every service has completed one loop (first cursor stored) before users act: see ASSUMPTIONS
            ex.apply(["S", wh])
        if disjoint:
            ex.apply(["Q"])
        gen_history(rng, ex, rng.randint(1, 6), sides=sides, style=style, mix=random_mix(rng), prefixes=({0: "/p0", 1: "/p1"} if disjoint else None))
        case["plan"] = ex.plan
        ex.epilogue()
        bv = _oracle(ex, case)
    except Violation as e:
        bv = e
        case["plan"] = ex.plan
    stats = {"evaluations": 0, "shape": [], "nontrivial": True, "fingerprints": [], "sim_s": 0.0, "faults": {}, "probes": {}, "family": case["family"],
             "sample": {"cfg": cfg, "family": case["family"], "plan": case["plan"][:40]}}
    if bv is not None:
        stats["probes"]["base-not-clean"] = 1
        stats["nontrivial"] = False
        stats["evaluations"] = 1
        return {"case": case, "violation": None, "stats": stats}
    ns, np_ = ex.world.ctl.nsw, ex.world.ctl.npw
    stats["probes"]["crash-points"] = ns + np_
    first = None
    for kind, n in (("sw", ns), ("pw", np_)):
        for k in range(1, n + 1):
            c = dict(case)
            c["crash"] = [kind, k]
            try:
                cx, crashed, site = _crash_run(c, (kind, k))
                v = _oracle(cx, c)
            except Violation as e:
                v = e
                crashed, site = True, "?"
            stats["evaluations"] += 1
            stats["sim_s"] += 0.0
            if crashed:
                stats["faults"]["crash-" + kind] = stats["faults"].get("crash-" + kind, 0) + 1
                stats["shape"].append(_shape(c, (kind, k), site))
            else:
                stats["probes"]["crash-point-not-reached"] = stats["probes"].get("crash-point-not-reached", 0) + 1
            if v is not None and first is None:
                first = (c, v)
    if first:
        return {"case": first[0], "violation": first[1].as_dict(), "stats": stats}
    case["crash"] = None
    return {"case": case, "violation": None, "stats": stats}


def replay(case):
    case = dict(case)
    crash = tuple(case["crash"]) if case.get("crash") else None
    try:
        ex, crashed, site = _crash_run(case, crash)
        v = _oracle(ex, case)
    except Violation as e:
        v = e
        crashed, site = True, "?"
    st = {"evaluations": 1, "shape": [_shape(case, crash, site)], "nontrivial": bool(crashed), "fingerprints": [], "sim_s": 0.0, "faults": {}, "probes": {}, "family": case.get("family")}
    return {"case": case, "violation": v.as_dict() if v else None, "stats": st}


def minimise(case, viol):
    """delta debugging that keeps the three start-up loops (part of the family's definition, see ASSUMPTIONS)"""
    from sim import runner
    import sys
    prop = sys.modules[__name__]
    plan = case["plan"]
    pre = 3 if [tuple(x) for x in plan[:3]] == [("S", 2), ("S", 0), ("S", 1)] else 0
    marked = [list(it) + ["#keep"] if i < pre else list(it) for i, it in enumerate(plan)]

    class P:
        @staticmethod
        def replay(c):
            c = dict(c)
            c["plan"] = [it[:-1] if it and it[-1] == "#keep" else it for it in c["plan"]]
            return prop.replay(c)
    c = dict(case)
    c["plan"] = marked
    m = runner.ddmin_plan(P, c, viol["cls"], frozen=lambda it: bool(it) and it[-1] == "#keep")
    m["plan"] = [it[:-1] if it and it[-1] == "#keep" else it for it in m["plan"]]
    return m
