"""C11 Sync-state index integrity (DESIGN 5/C11): (a) monitor after every step of engine-driven runs (the C01
families); (b) directly generated state-level sequences of raw event tuples / field assignments."""
from .common import (Exec, gen_history, Violation, weighted, random_mix, drive, ALL_FLAVOURS, REAL, STUBS)
from .monitors import IndexMonitor, index_violation
from sim import det
from sim.det import statemod, CLOCK

ID = "C11"
LEVEL = "exploration"
TECHNIQUE = "deterministic simulation: index/pending-set invariant recomputed from the entries after every simulated engine step, plus seeded state-level event-tuple sequences"
RULE = ("family 'engine': the C01 run families (two-sided histories x schedule styles x flavours) with the invariant evaluated after every event-intake step, every sync step and "
        "at quiet; family 'state': a bare SyncState over two MockProviders driven by 3-25 raw operations drawn from update(side, type, id, path, hash, exists, prior id) tuples over a "
        "pool of 4 ids x 4 paths (so duplicates, stale and out-of-order tuples are the norm), direct field assignments, ignore/unignore, split, finished, storage_commit, both id "
        "styles. Invariant: every slot leads to an entry carrying that id/(path,id); every reachable entry is found under its id and path; pending set == entries with a change flag "
        "on a side that has an id. distinct = (history shape, schedule, flavour) resp. the op-sequence shape; non-trivial = >=1 engine write and interleaved step, resp. >=2 entries touched.")
ASSUMPTIONS = ["the invariant reads SyncState's private tables (_oids, _paths, _changeset) because the property is about exactly those", "bounded histories / sequences"]
LEVEL_TEXT = "seeded exploration with a recomputation oracle evaluated at every step boundary (about 40 boundaries per run)"
LEVEL_NOTE = "trusted: the invariant's own recomputation (props/monitors.py, 60 lines); AssertionError/RecursionError raised by the state API on a legal tuple is itself a violation in the 'state' family"


def budget(tier):
    return {"quick": {"runs": 6000, "wall": 150}, "thorough": {"runs": 72000, "wall": 900}}[tier]


def _setup(ex, case):
    ex.imon = IndexMonitor()
    ex.monitors.append(ex.imon)


def _verdict(ex, case):
    ex.probes = {"boundaries-checked": ex.imon.checked}
    return None


# ------------------------------------------------------------------ state-level family
OIDS = ("i1", "i2", "i3", "i4")
PATHS = ("/r/a", "/r/b", "/r/a/c", "/r/d")


def _mk_state(oid_is_path):
    from cloudsync.providers.mock import MockProvider
    det.reset_world_globals()
    provs = []
    for i in range(2):
        p = MockProvider(oid_is_path=oid_is_path, case_sensitive=True)
        p.connection_id = "conn%d" % i
        p.connect({"key": "val"})
        provs.append(p)
    return statemod.SyncState(tuple(provs), None, tag="t", shuffle=False)


TYPE_OF = {"i1": "f", "i2": "f", "i3": "d", "i4": "d", "/r/a": "d", "/r/d": "d", "/r/b": "f", "/r/a/c": "f"}


def _under(p, q):
    return p is not None and q is not None and (p == q or p.startswith(q + "/"))


def _run_state_ops(ops, oid_is_path):
    """Apply the raw operations that are *legal* (an id keeps its type; with path ids the id is the path; a folder never
    moves into its own subtree; unignore names the current reason); illegal ones are skipped, so deleting an item from
    a plan never changes what the others mean."""
    from cloudsync.types import DIRECTORY, FILE
    from cloudsync.sync.state import Exists, IgnoreReason
    st = _mk_state(oid_is_path)
    touched = set()
    for n, op in enumerate(ops):
        k = op[0]
        try:
            if k == "update":
                _, side, typ, oid, path, h, exists, prior = op
                if oid_is_path:
                    if not path:
                        continue
                    oid = path
                    if prior is not None and (prior == path or TYPE_OF[prior] != TYPE_OF[path] or _under(path, prior) or _under(prior, path)):
                        continue
                else:
                    prior = None
                typ = TYPE_OF[oid]
                if typ == "d":
                    h = None
                st.update(side, DIRECTORY if typ == "d" else FILE, oid, path=path, hash=h, exists=exists, prior_oid=prior)
                touched.add(oid)
            else:
                ents = sorted(st.get_all(discarded=True), key=lambda e: e._vserial)
                if not ents:
                    continue
                e = ents[op[1] % len(ents)]
                side = op[2] % 2
                if k == "setpath":
                    cur = e[side].path
                    if oid_is_path or e[side].oid is None:
                        continue
                    e[side].path = op[3]
                elif k == "setoid":
                    if oid_is_path or (op[3] is not None and TYPE_OF[op[3]] != ("d" if e[side].otype == DIRECTORY else "f")):
                        continue
                    if op[3] is None:
                        e[side].changed = 0         # the engine clears the flag before it drops an id (handle_hash_diff)
                    e[side].oid = op[3]
                elif k == "changed":
                    if op[3] and e[side].oid is None:
                        continue        # the engine only ever *sets* a change flag on a side that has an id
                    e[side].changed = op[3]
                elif k == "exists":
                    e[side].exists = [Exists.EXISTS, Exists.TRASHED, Exists.MISSING, Exists.UNKNOWN][op[3] % 4]
                elif k == "ignore":
                    if e.ignored == IgnoreReason.NONE:
                        e.ignore([IgnoreReason.DISCARDED, IgnoreReason.CONFLICT, IgnoreReason.IRRELEVANT][op[3] % 3])
                elif k == "unignore":
                    if e.ignored != IgnoreReason.NONE:
                        e.unignore(e.ignored)
                elif k == "finished":
                    st.finished(e)
                elif k == "split":
                    if e[0].oid and e[1].oid:
                        st.split(e)
                elif k == "commit":
                    st.storage_commit()
        except (AssertionError, RecursionError, AttributeError, KeyError, TypeError) as exn:
            import traceback
            tb = traceback.extract_tb(exn.__traceback__)
            site = "%s:%s" % (tb[-1].name, tb[-1].lineno)
            return Violation("state-api-raises", "op #%d %s raised %s at %s" % (n, op, type(exn).__name__, site), mech=type(exn).__name__ + "@" + tb[-1].name), len(touched)
        msg = index_violation(st)
        if msg:
            return Violation("index-broken", "after op #%d %s: %s" % (n, op, msg)), len(touched)
    return None, len(touched)


def _gen_state_ops(rng):
    ops = []
    for _ in range(rng.randint(3, 25)):
        r = rng.random()
        if r < 0.6:
            path = rng.choice(PATHS + (None,))
            ops.append(["update", rng.randrange(2), rng.choice("fd"), rng.choice(OIDS), path, rng.choice([None, "h1", "h2"]),
                        rng.choice([True, True, False, None]), rng.choice(PATHS + (None, None))])
        else:
            k = rng.choice(["setpath", "setoid", "changed", "exists", "ignore", "unignore", "finished", "split", "commit"])
            arg = {"setpath": rng.choice(PATHS), "setoid": rng.choice(OIDS + (None,)), "changed": rng.choice([0, 1.0, 2.0])}.get(k, rng.randrange(8))
            ops.append([k, rng.randrange(8), rng.randrange(2), arg])
    return ops


def _state_result(case):
    v, touched = _run_state_ops(case["plan"], case["cfg"]["oid_is_path"])
    shape = " ".join("%s%s" % (o[0][:3], o[1] if o[0] != "update" else "%d%s" % (o[1], o[2])) for o in case["plan"]) + "|" + str(case["cfg"]["oid_is_path"])
    st = {"shape": shape, "nontrivial": touched >= 2, "family": "state", "fingerprints": [], "sim_s": 0.0,
          "sample": {"cfg": case["cfg"], "family": "state", "plan": case["plan"][:30]}}
    return {"case": case, "violation": v.as_dict() if v else None, "stats": st}


def generate(rng, tier, index):
    if rng.random() < 0.35:
        case = {"prop": ID, "cfg": {"oid_is_path": rng.random() < 0.5}, "family": "state", "plan": _gen_state_ops(rng)}
        return _state_result(case)
    flav = rng.choice(ALL_FLAVOURS)
    style = weighted(rng, (("eager", 2), ("batched", 4), ("bursty", 2), ("split", 4)))
    case = {"prop": ID, "cfg": {"flavour": flav}, "style": style, "family": style}
    return drive(case, lambda ex: gen_history(rng, ex, rng.randint(1, 7), style=style, mix=random_mix(rng)), _verdict, setup=_setup, generating=True)


def replay(case):
    case = dict(case)
    if case.get("family") == "state":
        return _state_result(case)
    return drive(case, lambda ex: ex.run(case["plan"]), _verdict, setup=_setup)
