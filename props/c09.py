"""C09 Storage backends as a durable, tag-isolated map of rows (DESIGN 5/C09)."""
import os
import shutil

from sim import det
from sim import threads as T

ID = "C09"
ENGINE = "sim-seq"
LEVEL = "exploration"
TECHNIQUE = "seeded operation/fault-sequence search against a dict reference model (close/reopen, second connection, copy-the-files-as-crash), plus sim-thread interleaving of concurrent callers with line pre-emption in sqlite_storage.py"
RULE = ("family 'seq': a backend (SqliteStorage on a real file in a scratch directory | SqliteStorage on ':memory:' | the repo's MockStorage fixture) driven by 3-25 calls drawn from create / update / delete / "
        "read / read_all(tag) / read_all() over 3 tags with ids that deliberately collide across tags (every id ever returned is tried under every tag, plus never-issued ids), values empty, 1-byte, non-UTF-8, "
        "100 KiB and integers (as the cursor code stores them); interleaved with close+reopen, 'a second connection on the same file reads everything', and - as the crash analogue - 'copy the database "
        "file and its -wal at a statement boundary and open the copy'. Every return value is compared with a dict (tag,id)->value model, call by call. 15 % of the sequential cases are 'hot row' histories on SQLite (one tag, two values, the first three ids: the same row is updated, deleted, re-created under the row id SQLite hands out again, and updated again with bytes it held before). family 'threads': 2-3 sim-threads issue creates and "
        "updates on shared and disjoint tags of one SqliteStorage file while the scheduler pre-empts between traced lines of sqlite_storage.py; after joining, exactly the acknowledged rows are present. "
        "distinct = (backend, op-kind sequence) resp. (thread scripts, scheduler digest); non-trivial = >=1 cross-tag id collision attempted or >=1 reopen/copy, resp. >=2 thread switches inside storage calls.")
ASSUMPTIONS = ["the interleaving inside sqlite's C code is outside the simulator (calls are atomic at the Python line level)", "'crash' = the files as they are at a statement boundary (journal_mode=WAL, autocommit): torn pages / lost fsyncs are outside the statement",
               "MockStorage 'reopen' = a second MockStorage object over the same dict, which is how the repo's own tests model a restart"]
LEVEL_TEXT = "seeded sequence search with an exact reference model, call by call; concurrency clause on sim-threads"
LEVEL_NOTE = "trusted: the dict model (20 lines); real sqlite3 on real files under the per-process scratch directory"
REAL = ["SqliteStorage (real sqlite3, real files)", "MockStorage fixture"]
STUBS = ["threading.Lock of sqlite_storage.py in the 'threads' family (sim lock)"]

TAGS = ("t1", "t2", "cursor")
VALUES = (b"", b"x", b"\xff\x00\xfe", b"v" * 100_000, 0, 7, 2 ** 40, b"row")


def budget(tier):
    return {"quick": {"runs": 1500, "wall": 170}, "thorough": {"runs": 18000, "wall": 900}}[tier]


def _open(backend, path, shared):
    if backend == "mock":
        from cloudsync.tests.fixtures.mock_storage import MockStorage
        return MockStorage(shared)
    from cloudsync.sync.sqlite_storage import SqliteStorage
    return SqliteStorage(":memory:" if backend == "memory" else path)


def _val(v):
    return VALUES[v]


def _run_seq(case):
    det.reset_world_globals()
    root = det.scratch_root()
    path = os.path.join(root, "c09.db")
    backend = case["backend"]
    shared = {}
    st = _open(backend, path, shared)
    model = {}
    issued = []
    collisions = reopen = 0
    deferred = None
    try:
        for n, op in enumerate(case["plan"]):
            k = op[0]

            def bad(msg):
                return ("model-mismatch", "op #%d %s on backend %s: %s" % (n, op, backend, msg)), collisions, reopen
            try:
                if k == "create":
                    tag, v = TAGS[op[1]], _val(op[2])
                    eid = st.create(tag, v)
                    if (tag, eid) in model:
                        return bad("create returned id %r which a live row of tag %s is using" % (eid, tag))
                    model[(tag, eid)] = v
                    issued.append(eid)
                elif k in ("update", "delete", "read"):
                    tag = TAGS[op[1]]
                    eid = issued[op[2] % len(issued)] if issued and op[2] >= 0 else 10_000 + abs(op[2])
                    if any(t != tag and i == eid for (t, i) in model):
                        collisions += 1
                    if k == "update":
                        v = _val(op[3])
                        try:
                            r = st.update(tag, v, eid)
                            if (tag, eid) not in model:
                                return bad("update of the missing row (%s,%r) was accepted (returned %r)" % (tag, eid, r))
                            model[(tag, eid)] = v
                        except ValueError:
                            if (tag, eid) in model:
                                return bad("update of the live row (%s,%r) raised ValueError" % (tag, eid))
                    elif k == "delete":
                        st.delete(tag, eid)
                        model.pop((tag, eid), None)
                    else:
                        r = st.read(tag, eid)
                        want = model.get((tag, eid))
                        if r != want or type(r) is not type(want):
                            return bad("read(%s,%r) returned %r, the model holds %r" % (tag, eid, _short(r), _short(want)))
                elif k == "read_all":
                    if op[1] is None:
                        got = st.read_all()
                        want = {}
                        for (t, i), v in model.items():
                            want.setdefault(t, {})[i] = v
                        got = {t: dict(r) for t, r in got.items() if r}
                    else:
                        tag = TAGS[op[1]]
                        got = dict(st.read_all(tag))
                        want = {i: v for (t, i), v in model.items() if t == tag}
                    if got != want:
                        return bad("read_all(%s) returned %s, the model holds %s" % (op[1], _short(got), _short(want)))
                elif k == "reopen":
                    if backend == "memory":
                        continue
                    reopen += 1
                    if backend == "file":
                        st.close()
                    st = _open(backend, path, shared)
                elif k == "second":
                    if backend != "file":
                        continue
                    reopen += 1
                    st2 = _open(backend, path, shared)
                    got = {t: dict(r) for t, r in st2.read_all().items() if r}
                    st2.close()
                    want = {}
                    for (t, i), v in model.items():
                        want.setdefault(t, {})[i] = v
                    if got != want:
                        return bad("a second connection sees %s, acknowledged rows are %s" % (_short(got), _short(want)))
                elif k == "copycrash":
                    if backend != "file":
                        continue
                    reopen += 1
                    cp = os.path.join(root, "copy.db")
                    for suffix in ("", "-wal"):
                        if os.path.exists(path + suffix):
                            shutil.copyfile(path + suffix, cp + suffix)
                    st2 = _open(backend, cp, shared)
                    got = {t: dict(r) for t, r in st2.read_all().items() if r}
                    st2.close()
                    for suffix in ("", "-wal", "-shm"):
                        if os.path.exists(cp + suffix):
                            os.unlink(cp + suffix)
                    want = {}
                    for (t, i), v in model.items():
                        want.setdefault(t, {})[i] = v
                    if got != want:
                        return bad("after copying the database files (crash analogue) the copy holds %s, acknowledged rows are %s" % (_short(got), _short(want)))
            except Exception as e:      # pylint: disable=broad-except
                if isinstance(e, ValueError) and k == "update":
                    continue
                if isinstance(e, ValueError) and k == "read" and backend == "mock" and deferred is None:
                    # MockStorage.read() of a missing id raises (recorded finding): remember it, but keep checking the rest of
                    # the sequence, so that the finding does not hide anything that comes after it
                    deferred = ("exception", "op #%d %s on backend %s raised %s: %s" % (n, op, backend, type(e).__name__, str(e)[:150])), collisions, reopen
                    continue
                if isinstance(e, ValueError) and k == "read" and backend == "mock":
                    continue
                return ("exception", "op #%d %s on backend %s raised %s: %s" % (n, op, backend, type(e).__name__, str(e)[:150])), collisions, reopen
    finally:
        try:
            st.close()
        except Exception:   # pylint: disable=broad-except
            pass
    if deferred is not None:
        return deferred[0], collisions, reopen
    return None, collisions, reopen


def _short(x):
    s = repr(x)
    return s if len(s) < 160 else s[:150] + "...(%d)" % len(s)


# ----------------------------------------------------------------------------------------------- threads family
def _run_threads(case):
    det.reset_world_globals()
    root = det.scratch_root()
    path = os.path.join(root, "c09t.db")
    from cloudsync.sync import sqlite_storage as sq
    s = T.Sched(case["sched_seed"], preempt_p=case["preempt_p"], trace_files=("cloudsync/sync/sqlite_storage.py",))
    th = T.install(s)
    saved = sq.Lock
    sq.Lock = th.Lock
    live = {}
    errors = []
    try:
        def main():
            st = sq.SqliteStorage(path)

            def worker(k, script):
                mine = []       # this caller's live rows: [tag, id, value] (values are unique per write: ids are reused by sqlite)
                live[k] = mine
                for n, op in enumerate(script):
                    try:
                        if op[0] == "create":
                            v = ("w%d-%d" % (k, n)).encode()
                            eid = st.create(TAGS[op[1]], v)
                            mine.append([TAGS[op[1]], eid, v])
                        elif op[0] == "update" and mine:
                            row = mine[op[1] % len(mine)]
                            v = ("u%d-%d" % (k, n)).encode()
                            st.update(row[0], v, row[1])
                            row[2] = v
                        elif op[0] == "delete" and mine:
                            row = mine.pop(op[1] % len(mine))
                            st.delete(row[0], row[1])
                    except Exception as e:      # pylint: disable=broad-except
                        errors.append("worker %d op %s raised %r" % (k, op, e))
            ths = [T.SimThread(s, target=worker, args=(k, sc), name="w%d" % k) for k, sc in enumerate(case["scripts"])]
            for t in ths:
                t.start()
            for t in ths:
                t.join()
            got = sorted((t, v) for t, rows in st.read_all().items() for i, v in rows.items())
            st.close()
            return got
        got = None
        try:
            got = s.run_main(main)
        except T.SimAbort:
            pass
    finally:
        sq.Lock = saved
        T.uninstall()
    if s.aborted and s.aborted != "finished":
        return ("hang", "the scheduler gave up: %s" % s.aborted), s
    if errors:
        return ("exception", errors[0]), s
    if s.thread_errors:
        return ("exception", "thread died: %s" % (s.thread_errors[:1],)), s
    acked = sorted((r[0], r[2]) for rows in live.values() for r in rows)
    if got != acked:
        missing = [x for x in acked if x not in (got or [])][:3]
        extra = [x for x in (got or []) if x not in acked][:3]
        return ("lost-write", "after joining all callers the file holds different rows than were acknowledged: missing %s, unexpected %s" % (missing, extra)), s
    return None, s


def _evaluate(case):
    if case["family"] == "threads":
        v, s = _run_threads(case)
        shape = "thr|%s|%s" % (";".join("".join(o[0][0] for o in sc) for sc in case["scripts"]), s.digest())
        st = {"shape": shape, "nontrivial": s.switches >= 2, "fingerprints": [s.digest()], "sim_s": 0.0, "faults": {"preemptions": s.preempts, "thread-switches": s.switches}, "probes": {},
              "family": "threads", "sample": {"family": "threads", "scripts": case["scripts"], "sched_seed": case["sched_seed"], "preempt_p": case["preempt_p"]}}
    else:
        v, coll, reopen = _run_seq(case)
        shape = "%s|%s" % (case["backend"], " ".join(o[0][:3] for o in case["plan"]))
        st = {"shape": shape, "nontrivial": coll >= 1 or reopen >= 1, "fingerprints": [], "sim_s": 0.0, "faults": {"reopen/second/copy": reopen}, "probes": {"cross-tag-id-collisions-attempted": coll},
              "family": "seq-" + case["backend"], "sample": {"family": "seq", "backend": case["backend"], "plan": case["plan"][:30]}}
    return {"case": case, "violation": {"cls": v[0], "detail": v[1], "mech": case.get("backend", "threads")} if v else None, "stats": st}


def generate(rng, tier, index):
    if rng.random() < 0.2:
        scripts = []
        for _ in range(rng.randint(2, 3)):
            sc = []
            for _ in range(rng.randint(2, 8)):
                k = rng.choice(["create", "create", "update", "delete"])
                sc.append([k, rng.randrange(3) if k == "create" else rng.randrange(8)])
            scripts.append(sc)
        return _evaluate({"prop": ID, "family": "threads", "scripts": scripts, "sched_seed": rng.randrange(1 << 30), "preempt_p": rng.choice([0.0, 0.1, 0.3]), "cfg": {}})
    if rng.random() < 0.15:
        # 'hot row' histories on the SQLite backend: one tag, two values, the first three ids - so that the same row is updated, deleted,
        # re-created (SQLite hands the freed top row id out again) and updated again with bytes it has held before
        backend = rng.choice(["file", "memory"])
        tag = rng.randrange(3)
        vals = [rng.randrange(len(VALUES)), rng.randrange(len(VALUES))]
        plan = [["create", tag, rng.choice(vals)] for _ in range(rng.randint(1, 3))]
        for _ in range(rng.randint(4, 14)):
            r = rng.random()
            if r < 0.3:
                plan.append(["update", tag, rng.randrange(3), rng.choice(vals)])
            elif r < 0.5:
                plan.append(["delete", tag, rng.randrange(3)])
            elif r < 0.65:
                plan.append(["create", tag, rng.choice(vals)])
            elif r < 0.85:
                plan.append(["read", tag, rng.randrange(3)])
            elif r < 0.95:
                plan.append(["read_all", rng.choice([None, tag])])
            else:
                plan.append(["reopen"])
        return _evaluate({"prop": ID, "family": "seq", "backend": backend, "plan": plan, "cfg": {}})
    backend = rng.choice(["file", "file", "memory", "mock"])
    plan = []
    for _ in range(rng.randint(3, 25)):
        r = rng.random()
        if r < 0.3:
            plan.append(["create", rng.randrange(3), rng.randrange(len(VALUES))])
        elif r < 0.45:
            plan.append(["update", rng.randrange(3), rng.randrange(-2, 12), rng.randrange(len(VALUES))])
        elif r < 0.6:
            plan.append(["delete", rng.randrange(3), rng.randrange(-2, 12)])
        elif r < 0.75:
            plan.append(["read", rng.randrange(3), rng.randrange(-2, 12)])
        elif r < 0.85:
            plan.append(["read_all", rng.choice([None, 0, 1, 2])])
        else:
            plan.append([rng.choice(["reopen", "second", "copycrash"])])
    return _evaluate({"prop": ID, "family": "seq", "backend": backend, "plan": plan, "cfg": {}})


def replay(case):
    return _evaluate(dict(case))


def minimise(case, viol):
    if case["family"] != "seq":
        return case
    from sim import runner
    import sys
    return runner.ddmin_plan(sys.modules[__name__], case, viol["cls"])


_WARM = [False]


def warmup():
    """CPython 3.12 delivers a slightly different line-event sequence the first time a code object runs under sys.settrace in a
    process; so that 'one seed = one execution' also holds for the first real run, every process first runs a fixed throw-away batch."""
    if _WARM[0]:
        return
    _WARM[0] = True
    import random as _r
    for k in range(6):
        try:
            generate(_r.Random(90000 + k), "quick", -1 - k)
        except Exception:   # pylint: disable=broad-except
            pass
