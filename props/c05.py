"""C05 Conflict-resolution contract (DESIGN 5/C05)."""
import io

from .common import (Exec, Violation, weighted, base_stats, FingerprintMonitor, ALL_FLAVOURS, REAL, STUBS, tree_str)
from sim.det import CLOCK

ID = "C05"
LEVEL = "exploration"
TECHNIQUE = "deterministic simulation: seeded step schedules around a two-sided same-file conflict with a logging resolver callback; each scenario executed under several schedules and the outcomes compared"
RULE = ("each case = flavour pair, conflict shape (create/create, edit/edit after a synchronised base, or edit/edit after a base that was itself a silent merge of identical creations), content pair (equal | empty vs non-empty | 1 byte | > 64 KiB so that ResolveFile streams), "
        "resolver behaviour (pick local|remote x keep, new merged data x keep false, None, raises, non-tuple, wrong-length tuple, non-file first element; merged data x keep true is a recorded finding), "
        "order of the two user writes, and 3 seeded schedules (engine steps interleaved before, between and after the two writes; split intake). Oracles per run: the resolver is called exactly once iff "
        "the contents differ; its two handles carry the labels of the two sides and the bytes each side really holds; outcome table of the statement (content at the path on both sides, '.conflicted' "
        "sibling iff the loser is kept); and the outcome is the same under all schedules of the case. evaluations = executed runs; distinct = (shape, content classes, behaviour, flavour, schedule string); "
        "non-trivial = the conflict really existed when the engine first looked (resolver called or contents equal).")
ASSUMPTIONS = ["MockProvider is the cloud contract", "one conflicting file per case", "the default-resolver fallback is 'remote wins, local kept as .conflicted' as the statement says"]
LEVEL_TEXT = "seeded exploration of (contents x resolver behaviour x shape x flavour x schedule) with a table oracle and a cross-schedule comparison"
LEVEL_NOTE = "trusted: the logging resolver (reads both handles completely before answering)"

BEHAVIOURS = ("local-keep", "local-drop", "remote-keep", "remote-drop", "merge-drop", "none", "raise", "nontuple", "len3", "notfile", "merge-keep")
CONTENTS = ("equal", "empty-vs", "one-byte", "large", "small")


def budget(tier):
    return {"quick": {"runs": 1500, "wall": 170}, "thorough": {"runs": 18000, "wall": 900}}[tier]


def _contents(kind, n):
    if kind == "equal":
        return ("same%d" % n, "same%d" % n)
    if kind == "empty-vs":
        return ("", "nonempty%d" % n)
    if kind == "one-byte":
        return ("a", "b")
    if kind == "large":
        return ("L0:%d:" % n + "x" * 70000, "L1:%d:" % n + "y" * 70001)
    return ("loc%d" % n, "rem%d" % n)


class Resolver:
    def __init__(self, behaviour, rewind=True):
        self.b = behaviour
        self.rewind = rewind
        self.calls = []

    def __call__(self, f1, f2):
        rec = {}
        for f in (f1, f2):
            try:
                data = f.read()
                if self.rewind:
                    f.seek(0)       # (a resolver is not obliged to rewind what it read: the engine must do that itself)
            except Exception as e:
                data = "READ-ERROR %r" % (e,)
            rec[getattr(f, "side", None)] = (data, getattr(f, "path", None))
        self.calls.append(rec)
        by_side = {getattr(f, "side", None): f for f in (f1, f2)}
        b = self.b
        if b == "local-keep":
            return (by_side.get(0), True)
        if b == "local-drop":
            return (by_side.get(0), False)
        if b == "remote-keep":
            return (by_side.get(1), True)
        if b == "remote-drop":
            return (by_side.get(1), False)
        if b == "merge-drop":
            m = io.BytesIO()
            m.write(b"MERGED")
            if self.rewind:
                m.seek(0)
            return (m, False)
        if b == "merge-keep":
            return (io.BytesIO(b"MERGED"), True)
        if b == "none":
            return None
        if b == "raise":
            raise RuntimeError("resolver failed")
        if b == "nontuple":
            return 42
        if b == "len3":
            return (f1, True, "x")
        if b == "notfile":
            return ("not a file", True)
        return None


def _run_one(case, plan):
    ex = Exec(case["cfg"])
    fp = FingerprintMonitor()
    ex.monitors.append(fp)
    res = Resolver(case["behaviour"], case.get("rewind", True))
    ex.world.resolver = res
    v = None
    ex.conflict = None          # did both sides hold different unsynchronised content when the second user wrote?
    ex.second_done = True
    seen = []
    orig_apply = ex.apply

    def apply(item, record=True):
        if item[0] == "U" and item[3] == "/f" and item[2] in ("create", "write") and item[4] != "base":
            side = item[1]
            if seen:
                mine = (ex.world.tree(side) or {}).get("/f")
                first_payload = seen[0][1].encode()
                ex.conflict = not (mine is not None and mine[1] == first_payload)
            ok = orig_apply(item, record)
            if seen and not ok:
                ex.second_done = False
            if ok:
                seen.append((side, item[4]))
            return ok
        return orig_apply(item, record)
    ex.apply = apply
    try:
        ex.run(plan)
        ex.epilogue(cap=300)
    except Violation as e:
        v = e
    return ex, res, fp, v


def _outcome(ex):
    t0, t1 = ex.world.tree(0) or {}, ex.world.tree(1) or {}
    at = (t0.get("/f"), t1.get("/f"))
    conf = sorted(set(v[1] for t in (t0, t1) for k, v in t.items() if ".conflicted" in k and v[0] == "f"))
    return at, conf, t0, t1


def _table_violation(case, ex, res):
    c0, c1 = (x.encode() for x in case["contents"])
    b = case["behaviour"]
    if ex.nonquiescent:
        return Violation("nonquiescent", "engine still busy after the round budget (behaviour %s)" % b, mech=b)
    at, conf, t0, t1 = _outcome(ex)
    differ = c0 != c1
    ncalls = len(res.calls)
    where = "local=%s remote=%s" % (tree_str(t0), tree_str(t1))
    if differ and not ex.conflict:
        # the first version had already been synchronised when the second user wrote (or the second create was refused
        # because the engine had already put the file there): no conflict ever existed - plain overwrite
        last = (c1 if case["first"] == 0 else c0) if ex.second_done else (c0 if case["first"] == 0 else c1)
        if ncalls:
            return Violation("resolver-called-without-conflict", "the first version was already synchronised when the second was written, yet the resolver was called %d time(s); %s" % (ncalls, where))
        if at != (("f", last), ("f", last)) or conf:
            return Violation("outcome", "sequential writes (no conflict): expected /f=%r.. on both sides and no .conflicted; %s" % (last[:20], where))
        return None
    if not differ:
        if ncalls:
            return Violation("resolver-called-on-equal", "identical content on both sides but the resolver was called %d time(s); %s" % (ncalls, where))
        if at != (("f", c0), ("f", c0)) or conf:
            return Violation("outcome", "identical content: expected /f=%r on both sides and no .conflicted; %s" % (c0[:20], where))
        return None
    if ncalls != 1:
        return Violation("resolver-call-count", "contents differ but the resolver was called %d times (behaviour %s); %s" % (ncalls, b, where), mech=b)
    call = res.calls[0]
    if set(call) != {0, 1}:
        return Violation("resolver-args", "handle side labels are %s, expected {0, 1}" % (sorted(call, key=str),))
    if call[0][0] != c0 or call[1][0] != c1:
        return Violation("resolver-args", "bytes read from the handles do not match the sides: local handle %r.. remote handle %r.. but sides hold %r.. / %r.." % (
            str(call[0][0])[:20], str(call[1][0])[:20], c0[:20], c1[:20]))
    if b in ("local-keep", "local-drop"):
        win, lose, keep = c0, c1, b.endswith("keep")
    elif b in ("remote-keep", "remote-drop"):
        win, lose, keep = c1, c0, b.endswith("keep")
    elif b == "merge-drop":
        win, lose, keep = b"MERGED", None, False
    elif b == "merge-keep":
        win, lose, keep = b"MERGED", None, True
    else:
        win, lose, keep = c1, c0, True
    if at != (("f", win), ("f", win)):
        return Violation("outcome", "behaviour %s: expected /f=%r.. on both sides; %s" % (b, win[:20], where), mech=b)
    if b == "merge-keep":
        return None
    if keep and conf != [lose]:
        return Violation("outcome", "behaviour %s: the losing version %r.. should be kept under a .conflicted name exactly once, found %s; %s" % (b, lose[:20], [c[:20] for c in conf], where), mech=b)
    if not keep and conf:
        return Violation("outcome", "behaviour %s: nothing should be kept, found .conflicted %s; %s" % (b, [c[:20] for c in conf], where), mech=b)
    return None


def _plan(rng, case):
    """one seeded schedule of the scenario"""
    c0, c1 = case["contents"]
    first = case["first"]
    plan = []

    def steps(lo, hi):
        for _ in range(rng.randrange(lo, hi)):
            wh = rng.randrange(3)
            if wh < 2 and rng.random() < 0.4:
                plan.append(["E", wh, rng.randrange(1, 3)])
            plan.append(["S", wh])
    if case["shape"] == "edit":
        plan.append(["U", case["base_side"], "create", "/f", "base"])
        plan.append(["Q"])
        ops = {0: ["U", 0, "write", "/f", c0], 1: ["U", 1, "write", "/f", c1]}
    elif case["shape"] == "merge-edit":
        # the base itself came into being as a silent merge: the same bytes created on both sides, in either intake order
        b = case["base_side"]
        plan.append(["U", b, "create", "/f", "base"])
        plan.append(["U", 1 - b, "create", "/f", "base"])
        for wh in rng.sample([0, 1, 2, 2], 4):
            plan.append(["S", wh])
        plan.append(["Q"])
        ops = {0: ["U", 0, "write", "/f", c0], 1: ["U", 1, "write", "/f", c1]}
    else:
        ops = {0: ["U", 0, "create", "/f", c0], 1: ["U", 1, "create", "/f", c1]}
    steps(0, 3)
    plan.append(ops[first])
    steps(0, 4)
    plan.append(ops[1 - first])
    steps(0, 6)
    return plan


def _evaluate(case):
    """run every schedule of the case; returns (violation, stats pieces)"""
    outcomes = []
    shapes = []
    fps = []
    sim_s = 0.0
    nontrivial = False
    viol = None
    rounds = 0
    for k, plan in enumerate(case["plans"]):
        ex, res, fp, v = _run_one(case, plan)
        if v is None:
            v = _table_violation(case, ex, res)
        at, conf, t0, t1 = _outcome(ex)
        outcomes.append((at, conf) if ex.conflict else ("sequential", k))
        shapes.append("%s|%s|%s|%s|%s" % (case["shape"], case["ckind"], case["behaviour"], case["cfg"]["flavour"], "".join(str(i[1]) if i[0] == "S" else i[0].lower() for i in plan)))
        fps += list(fp.seen)
        sim_s += CLOCK.now - CLOCK.T0
        nontrivial = nontrivial or bool(res.calls) or case["ckind"] == "equal"
        rounds = max(rounds, max(ex.quiet_rounds) if ex.quiet_rounds else 0)
        if v is not None and viol is None:
            viol = v
            viol.kw["schedule"] = k
    real = [o for o in outcomes if o[0] != "sequential"]
    if viol is None and len(set(repr(o) for o in real)) > 1 and case["behaviour"] != "merge-keep":
        viol = Violation("schedule-dependent", "the same conflict ends differently under different schedules: %s" % ([(o[0], [c[:12] for c in o[1]]) for o in real],), mech=case["behaviour"])
    st = {"evaluations": len(case["plans"]), "shape": shapes, "nontrivial": nontrivial, "fingerprints": fps, "sim_s": sim_s, "faults": {}, "probes": {"behaviour:" + case["behaviour"]: 1},
          "rounds": rounds, "family": case["shape"], "sample": {"cfg": case["cfg"], "behaviour": case["behaviour"], "contents": [c[:20] for c in case["contents"]], "plan": case["plans"][0][:40]}}
    return viol, st


def generate(rng, tier, index):
    flav = rng.choice(ALL_FLAVOURS)
    ckind = weighted(rng, (("equal", 2), ("empty-vs", 1), ("one-byte", 1), ("large", 1), ("small", 4)))
    case = {"prop": ID, "cfg": {"flavour": flav}, "shape": rng.choice(["create", "edit", "merge-edit"]), "ckind": ckind, "contents": list(_contents(ckind, index)),
            "behaviour": weighted(rng, tuple((b, 1 if b == "merge-keep" else 3) for b in BEHAVIOURS)), "first": rng.randrange(2), "base_side": rng.randrange(2), "family": "conflict", "rewind": rng.random() < 0.5}
    if rng.random() < 0.5:
        case["contents"].reverse()
    case["plans"] = [_plan(rng, case) for _ in range(3)]
    viol, st = _evaluate(case)
    return {"case": case, "violation": viol.as_dict() if viol else None, "stats": st}


def replay(case):
    case = dict(case)
    viol, st = _evaluate(case)
    return {"case": case, "violation": viol.as_dict() if viol else None, "stats": st}


def minimise(case, viol):
    """keep only the offending schedule (plus one other for a cross-schedule difference); the scenario itself is already minimal"""
    c = dict(case)
    k = viol.get("schedule")
    if k is not None and viol["cls"] != "schedule-dependent":
        c["plans"] = [case["plans"][k]]
    return c
