"""C03 One-sided changes mirror exactly; origin side untouched; no echo (DESIGN 5/C03)."""
from .common import (Exec, gen_history, Violation, weighted, random_mix, FingerprintMonitor, base_stats,
                     ALL_FLAVOURS, REAL, STUBS, diff_trees, tree_str)
from sim import model as M

ID = "C03"
LEVEL = "exploration"
TECHNIQUE = "deterministic simulation: seeded step scheduler, origin-tree snapshot after every engine step, write counting after quiet"
RULE = ("each run = flavour pair, an eagerly synchronised random preamble tree (either side), then a one-sided history (1-7 ops, random direction) "
        "under schedule style eager|batched|bursty|split. Oracles: after every engine step the origin side's tree equals the user-only reference model; "
        "at quiet peer == origin == model exactly (no .conflicted); 20 further rounds issue zero provider writes. "
        "distinct = (history shape, schedule string, flavour, direction); non-trivial = >=1 engine write and >=1 step interleaved.")
ASSUMPTIONS = ["MockProvider is the cloud contract", "bounded histories", "'effective change' is judged on the origin tree read through the Provider API, not on calls (an idempotent mkdir of an existing folder is not a change)"]
LEVEL_TEXT = "seeded exploration; the origin-untouched clause is an invariant checked at every step boundary of every run, the mirror and no-echo clauses at quiet"
LEVEL_NOTE = "trusted: MockProvider, model.py (40-line dict model of user ops); preambles that fail to synchronise are discarded here and reported by C01"

STY_Q = (("eager", 4), ("batched", 3), ("bursty", 2), ("split", 3))


def budget(tier):
    return {"quick": {"runs": 5000, "wall": 150}, "thorough": {"runs": 60000, "wall": 900}}[tier]


def _mark_synced(ex):
    """end of preamble: discard the run (not a C03 matter) unless both sides are equal and the engine is quiet"""
    w = ex.world
    r = w.quiesce()
    t0, t1 = w.tree(0), w.tree(1)
    ex.synced_ok = (r is not None and t0 == t1 and t0 is not None and not ex.nonquiescent)
    ex.model = dict(t0 or {})
    ex.in_main = True
    return True


class OriginMonitor:
    """after every engine step the origin tree must equal the model built from the user's own operations"""
    def __call__(self, ex, item):
        if not getattr(ex, "in_main", False) or not ex.synced_ok:
            return
        t = ex.world.tree(ex.origin)
        if t != ex.model:
            _, d = diff_trees(t or {}, ex.model)
            raise Violation("origin-modified", "origin side %d tree differs from what its user did after step %s: %s" % (ex.origin, item, d.replace("local=", "actual=").replace("remote=", "model=")),
                            paths=[s.split(" ")[0] for s in d.split("; ")])


def _setup(ex, origin):
    ex.origin = origin
    ex.in_main = False
    ex.synced_ok = False
    ex.model = {}
    ex.actions["mark_synced"] = _mark_synced
    ex.monitors.append(OriginMonitor())


def _apply_main(ex, item):
    """apply a main-phase item keeping the model in step"""
    if not ex.synced_ok:
        return ex.apply(item)
    if item[0] == "U":
        if item[1] != ex.origin:
            return False
        ok = ex.apply(item)
        if ok:
            if not M.apply(ex.model, item[2], item[3:]):
                raise Violation("origin-modified", "user op %s was legal on the provider but not on the model: the engine changed the origin side" % (item,), paths=[item[3]])
        return ok
    return ex.apply(item)


def _verdict(ex):
    if not ex.synced_ok:
        return None, "discarded-preamble"
    if ex.nonquiescent:
        return Violation("nonquiescent", "engine still busy after the round budget"), None
    w = ex.world
    t0, t1 = w.tree(0), w.tree(1)
    to, tp = (t0, t1) if ex.origin == 0 else (t1, t0)
    if to != ex.model:
        _, d = diff_trees(to or {}, ex.model)
        return Violation("origin-modified", "at quiet: " + d, paths=[s.split(" ")[0] for s in d.split("; ")]), None
    if tp != ex.model:
        toks, d = diff_trees(ex.model, tp or {})
        return Violation("mirror-mismatch", "peer differs from origin at quiet (model vs peer): " + d.replace("local=", "origin=").replace("remote=", "peer="),
                         tokens=list(toks), paths=[s.split(" ")[0] for s in d.split("; ")]), None
    before = w.ctl.npw
    for _ in range(20):
        for wh in (0, 1, 2):
            w.step(wh)
        from sim.det import CLOCK
        CLOCK.now += 0.05
    if w.ctl.npw != before:
        return Violation("echo", "engine issued %d provider writes after quiet: %s" % (w.ctl.npw - before, w.ctl.writes[-3:])), None
    return None, None


def _finish(ex, case, fp):
    note = None
    try:
        ex.epilogue()
        v, note = _verdict(ex)
    except Violation as e:
        v = e
    st = base_stats(ex, case["style"], fp, extra_shape="|o%d" % ex.origin)
    if note:
        st["probes"][note] = 1
        st["nontrivial"] = False
    return {"case": case, "violation": v.as_dict() if v else None, "stats": st}


def generate(rng, tier, index):
    flav = rng.choice(ALL_FLAVOURS)
    style = weighted(rng, STY_Q)
    origin = rng.randrange(2)
    cfg = {"flavour": flav}
    ex = Exec(cfg)
    fp = FingerprintMonitor()
    ex.monitors.append(fp)
    _setup(ex, origin)
    case = {"prop": ID, "cfg": cfg, "style": style, "family": style, "origin": origin}
    try:
        gen_history(rng, ex, rng.randint(0, 4), style="eager", mix=random_mix(rng))
        ex.apply(["Q"])
        ex.apply(["X", "mark_synced"])
        if ex.synced_ok:
            mix = random_mix(rng)
            mix["swap"] = 1         # two files exchange names through a temporary name
            _gen_main(rng, ex, rng.randint(1, 7), style, mix)
    except Violation as e:
        case["plan"] = ex.plan
        return {"case": case, "violation": e.as_dict(), "stats": base_stats(ex, style, fp)}
    case["plan"] = ex.plan
    return _finish(ex, case, fp)


def _gen_main(rng, ex, nops, style, mix):
    from sim.plan import propose, expand_op
    w = ex.world
    done = tries = 0
    while done < nops and tries < nops * 6:
        tries += 1
        op = propose(rng, ex.model, mix, ex.new_payload)
        if op is None:
            continue
        steps = expand_op(op, ex.model)
        if not steps:
            continue
        for one in steps[:-1]:
            # (a name swap: the three renames follow each other with at most one engine step in between)
            if not _apply_main(ex, ["U", ex.origin] + list(one)):
                break
            if style == "eager":
                ex.apply(["Q"])
            elif style != "bursty" and rng.random() < 0.5:
                ex.apply(["S", rng.randrange(3)])
        if not _apply_main(ex, ["U", ex.origin] + list(steps[-1])):
            continue
        done += 1
        if style == "eager":
            ex.apply(["Q"])
        elif style == "batched":
            for _ in range(rng.randrange(0, 4)):
                ex.apply(["S", rng.randrange(3)])
        elif style == "split":
            for _ in range(rng.randrange(0, 5)):
                wh = rng.randrange(3)
                if wh < 2 and rng.random() < 0.6:
                    ex.apply(["E", wh, rng.randrange(1, 3)])
                ex.apply(["S", wh])
            if rng.random() < 0.15:
                ex.apply(["T", rng.choice([0.001, 0.003, 0.02])])


def replay(case):
    ex = Exec(case["cfg"])
    fp = FingerprintMonitor()
    ex.monitors.append(fp)
    _setup(ex, case["origin"])
    try:
        for it in case["plan"]:
            if ex.in_main:
                _apply_main(ex, it)
            else:
                ex.apply(it)
        if not ex.in_main:
            ex.apply(["X", "mark_synced"], record=False)
    except Violation as e:
        return {"case": case, "violation": e.as_dict(), "stats": base_stats(ex, case.get("style"), fp)}
    return _finish(ex, dict(case), fp)
