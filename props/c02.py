"""C02 No silent data loss (DESIGN 5/C02): two-sided histories with clash-heavy op mixes; provenance oracle at quiet;
a separate corrupt-read fault configuration."""
from .common import (Exec, gen_history, Violation, weighted, random_mix, drive, sched_after_op, convergence_violation,
                     loss_violation, all_payloads, ALL_FLAVOURS, REAL, STUBS, tree_str)
from sim.plan import propose

ID = "C02"
LEVEL = "exploration"
TECHNIQUE = "deterministic simulation: seeded step scheduler, unique payload per user write (provenance), corrupt-read fault injection at the provider seam"
RULE = ("each run = flavour pair, two-sided history (1-7 ops) over a 2-file/1-folder alphabet so that same-path creates, edit/edit, edit/delete, "
        "delete/recreate and file-vs-folder clashes are the norm, schedule style eager|batched|bursty|split; family 'rename-over' (every tenth run): x and a synchronised, one user deletes x and renames a onto x while the other edits x; family 'corrupt' additionally marks one synced "
        "object unreadable (download raises CloudCorruptError from then on). Oracle at quiet: every payload a user wrote and no user destroyed exists byte for "
        "byte in a readable file on some side; trees converge modulo .conflicted (fault-free family); in the corrupt family the peer's good copy survives "
        "unless a user deleted/overwrote/renamed over a readable file holding it. distinct = (history shape, schedule string, flavour, family); non-trivial = >=1 engine write and >=1 interleaved step.")
ASSUMPTIONS = ["MockProvider is the cloud contract", "bounded histories (<=7 ops)", "payloads are unique per write, so 'content version' = byte string",
               "the default resolver (remote wins, local kept as .conflicted) is configured; C05 covers other resolvers"]
LEVEL_TEXT = ("seeded exploration with a provenance oracle: a lost version is reported with the concrete history and schedule that loses it; "
              "fault-free and corrupt-fault configurations are separate families so neither relaxation hides the other")
LEVEL_NOTE = "trusted: MockProvider, the destroyed-by-user bookkeeping in sim/world.user_op (reads the tree through the public API before each user op)"

NF = ("a", "b")
ND = ("a", "d1")      # folder name 'a' clashes with file name 'a'
CLASH_MIX = {"create": 5, "write": 5, "delete": 4, "rename": 2, "mkdir": 2, "rmtree": 1, "rmdir": 1, "rename_dir": 1}


def budget(tier):
    return {"quick": {"runs": 6000, "wall": 150}, "thorough": {"runs": 72000, "wall": 900}}[tier]


def _gen(rng, ex, nops, style, mix):
    w = ex.world
    done = tries = 0
    while done < nops and tries < nops * 6:
        tries += 1
        side = rng.randrange(2)
        t = w.tree(side)
        op = propose(rng, t, mix, ex.new_payload, names_f=NF, names_d=ND)
        if op is None or not ex.apply(["U", side] + list(op)):
            continue
        done += 1
        sched_after_op(rng, ex, style)


def _x_corrupt(ex, side, rel):
    """mark the object at rel on `side` unreadable from now on; remember the peer's good copy"""
    w = ex.world
    p = w.provs[side]
    info = p.info_path(w.roots[side] + rel)
    if not info or info.otype.value != "file":
        return False
    w.ctl.corrupt.setdefault(side, set()).add(info.oid)
    other = w.tree(1 - side) or {}
    good = other.get(rel)
    ex.corrupt_marks.append((side, rel, info.oid, good[1] if good and good[0] == "f" else None, len(ex.plan)))
    mine = (w.tree(side) or {}).get(rel)
    if mine:
        ex.exempt.add(mine[1])
    return True


def _setup(ex, case):
    ex.corrupt_marks = []
    ex.exempt = set()
    ex.destroyed_good = set()
    ex.released = set()
    ex.actions["corrupt"] = _x_corrupt
    orig_user = ex.world.user

    def user(side, op, *a):
        w = ex.world
        p = w.provs[side]
        bad = w.ctl.corrupt.get(side, ())
        on_corrupt = False
        if op == "write" and bad:
            info = p.info_path(w.roots[side] + a[0])
            on_corrupt = bool(info and info.oid in bad)
        ok, destroyed = orig_user(side, op, *a)
        if not on_corrupt:
            # overwriting an unreadable object gives the engine nothing it could replace the good copy with
            ex.destroyed_good.update(destroyed)
        if ok and bad:
            # the unreadable object was deleted / moved out of the way by its user: by the engine's documented design
            # the path is then free to be replaced, so the peer's copy is no longer 'the good copy of that object'
            for s_, rel, oid, good, at in ex.corrupt_marks:
                if s_ == side:
                    info = p.info_oid(oid) if p.exists_oid(oid) else None
                    if info is None or info.path != w.roots[side] + rel:
                        ex.released.add((side, oid))
            # any payload that (now) sits in an unreadable object can never be read by the engine
            for rel, v in (w.tree(side) or {}).items():
                if v[0] == "f":
                    info = p.info_path(w.roots[side] + rel)
                    if info and info.oid in bad:
                        ex.exempt.add(v[1])
        return ok, destroyed
    ex.world.user = user


def _readable_payloads(ex):
    w = ex.world
    have = set()
    for side in (0, 1):
        bad = w.ctl.corrupt.get(side, set())
        p = w.provs[side]
        for rel, v in (w.tree(side) or {}).items():
            if v[0] != "f":
                continue
            info = p.info_path(w.roots[side] + rel)
            if info and info.oid in bad:
                continue
            have.add(v[1])
    return have


def _verdict(ex, case):
    if case["family"] == "corrupt":
        if ex.nonquiescent:
            return None, "corrupt-nonquiescent"
        have = _readable_payloads(ex)
        lost = sorted(p for p in ex.written if p not in ex.destroyed and p not in have and p not in ex.exempt)
        if lost:
            return Violation("content-lost", "corrupt-read family: payload(s) %s exist in no readable file; local=%s remote=%s" % (
                [p.decode("latin1") for p in lost], tree_str(ex.world.tree(0)), tree_str(ex.world.tree(1))), lost=[p.decode("latin1") for p in lost])
        for side, rel, oid, good, at in ex.corrupt_marks:
            if good is not None and good not in have and good not in ex.destroyed_good and (side, oid) not in ex.released:
                return Violation("good-copy-lost", "object %s on side %d became unreadable; the good copy %r on side %d was removed/overwritten by the engine; local=%s remote=%s" % (
                    rel, side, good.decode("latin1"), 1 - side, tree_str(ex.world.tree(0)), tree_str(ex.world.tree(1))), lost=[good.decode("latin1")])
        return None
    v = convergence_violation(ex)
    lv = loss_violation(ex)
    if lv:
        return lv
    if v is not None:
        # divergence/non-quiescence without loss is C01's business, not C02's
        return None, "c01-" + v.cls
    return None


def generate(rng, tier, index):
    flav = rng.choice(ALL_FLAVOURS)
    family = weighted(rng, (("clash", 7), ("corrupt", 3)))
    style = weighted(rng, (("eager", 2), ("batched", 4), ("bursty", 2), ("split", 4)))
    if index % 10 == 7:
        family = "renameover"
    case = {"prop": ID, "cfg": {"flavour": flav}, "style": style, "family": family}
    mix = dict(CLASH_MIX)
    if rng.random() < 0.5:
        mix = random_mix(rng)

    def body(ex):
        n = rng.randint(1, 7)
        if family == "renameover":
            # one user deletes x and renames a synchronised file a onto the freed name while the other user has edited (or re-edits)
            # x - the edit must survive somewhere whatever the order in which the engine learns of the three operations
            s = rng.randrange(2)
            names = rng.sample(["/a", "/b", "/c.txt"], 2)
            x, a = names
            ex.apply(["U", s, "create", x, ex.new_payload()])
            ex.apply(["U", s, "create", a, ex.new_payload()])
            ex.apply(["Q"])
            todo = [["U", s, "delete", x], ["U", s, "rename", a, x]]
            k = rng.randrange(3)
            todo.insert(k, ["U", 1 - s, "write", x, ex.new_payload()])
            for it in todo:
                if ex.apply(it):
                    sched_after_op(rng, ex, style if style != "eager" else "batched")
            return
        if family == "corrupt":
            # synced base with at least one file, then mark it unreadable on one side, then the history
            k = rng.randint(1, 3)
            _gen(rng, ex, k, "eager", {"create": 5, "mkdir": 1})
            ex.apply(["Q"])
            files = [(s, r) for s in (0, 1) for r, v in (ex.world.tree(s) or {}).items() if v[0] == "f"]
            if files:
                s, r = rng.choice(files)
                ex.apply(["X", "corrupt", s, r])
            # renames are left out after the mark: with path ids a rename changes the id, i.e. silently 'repairs' or
            # re-breaks the object, which makes 'the good copy of that object' ill-defined (see DESIGN, false alarms)
            m2 = dict(mix, rename=0, rename_dir=0)
            if not any(m2.values()):
                m2["write"] = 3
            _gen(rng, ex, n, style, m2)
            return
        _gen(rng, ex, n, style, mix)
    return drive(case, body, _verdict, setup=_setup, generating=True, shape_extra=lambda ex: "|" + family)


def replay(case):
    case = dict(case)
    return drive(case, lambda ex: ex.run(case["plan"]), _verdict, setup=_setup, shape_extra=lambda ex: "|" + case["family"])
