"""C15 Thread safety (DESIGN 5/C15): the real CloudSync.start() threads on sim-threads, with a lock-ownership observer."""
import random

from sim import det
from sim import threads as T
from sim.det import statemod, eventmod, mgrmod
from sim.world import SimStorage, Ctl, SimCS, SimSmartCS, user_op, read_tree, strip_conflicted, FLAVOURS, CREDS, _Callbacks
from sim.plan import propose
from .monitors import index_violation
from .common import diff_trees

ID = "C15"
ENGINE = "sim-threads"
LEVEL = "exploration"
TECHNIQUE = "deterministic simulation of threads: the production thread structure (sync thread, two event threads, notification thread, application threads, a user) on baton-passing sim-threads with seeded line-level pre-emption; lock-ownership observer on every state mutation"
RULE = ("each run = flavour pair, a user history of 1-6 operations (no renames: the rename-race finding of C01 is not this property's subject) performed by a user thread at generated virtual times "
        "while the real CloudSync.start() runs its four service threads and 1-2 application threads call public methods (busy, change_count, aging setter, walk, and in on-demand mode "
        "smart_sync_path / smart_listdir_path); the scheduler's seed decides which thread continues at every sim primitive (Event, RLock, Queue, Thread.start, sleep) and, with probability "
        "0.005-0.05 per traced line of state.py / event.py / manager.py / cs.py / smartsync.py / runnable.py, pre-empts between two lines. Deterministic observation: every call of "
        "SyncState.updated / update / change / finished / split / storage_commit / _storage_update must find the state lock owned by the calling thread. Outcome: after stop() no service thread is "
        "alive, the index invariant of C11 holds, and the two trees are equal. distinct = (history shape, flavour, scheduler digest); non-trivial = >=20 thread switches and >=1 lock-guarded mutation "
        "made while another service thread was runnable.")
ASSUMPTIONS = ["switch points are sim primitives and traced Python lines; interleavings inside one line / inside C extensions are not explored (the GIL makes single bytecodes atomic, not lines)",
               "SimStorage (dict) as storage; MockProvider's own lock is a sim RLock too"]
LEVEL_TEXT = "seeded exploration of thread schedules with a deterministic lock-discipline observer: a mutation without the lock is reported whether or not it corrupted anything in that schedule"
LEVEL_NOTE = "trusted: sim/threads.py; the observer wraps methods of the live SyncState instance (no source change)"
REAL = ["CloudSync.start/stop, SyncManager, EventManager x2, NotificationManager, SyncState, Runnable - on real threads under the baton", "MockProvider x2"]
STUBS = ["threading / queue / time of the cloudsync modules (sim/threads.py)", "Storage (SimStorage)", "users and application threads (scenario-scripted)"]
TRACE = ("cloudsync/sync/state.py", "cloudsync/event.py", "cloudsync/sync/manager.py", "cloudsync/cs.py", "cloudsync/smartsync.py", "cloudsync/runnable.py")
GUARDED = ("updated", "update", "change", "finished", "split", "storage_commit", "_storage_update", "update_entry")
MIX = {"create": 4, "write": 3, "delete": 2, "mkdir": 2, "rmdir": 1}


def budget(tier):
    return {"quick": {"runs": 1500, "wall": 200}, "thorough": {"runs": 18000, "wall": 900}}[tier]


def _run(case):
    det.reset_world_globals()
    s = T.Sched(case["sched_seed"], preempt_p=case["preempt_p"], trace_files=TRACE, max_decisions=400000)
    T.install(s)
    out = {"lock": [], "errors": [], "trees": None, "index": None, "alive": None, "guarded": 0, "contended": 0, "busy": None}
    try:
        def main():
            sides = FLAVOURS[case["flavour"]]
            from cloudsync.providers.mock import MockProvider
            provs = []
            for i, (oip, csens, filt) in enumerate(sides):
                p = MockProvider(oid_is_path=bool(oip), case_sensitive=bool(csens), filter_events=bool(filt))
                p.connection_id = "conn%d" % i
                p.connect(CREDS)
                provs.append(p)
            roots = ("/local", "/remote")
            for p, r in zip(provs, roots):
                p.mkdirs(r)
            eventmod.EventManager._provider_guard.clear()
            cls = SimSmartCS if case.get("smart") else SimCS
            _Callbacks.world = None
            cs = cls(tuple(provs), roots=roots, storage=SimStorage({}, Ctl()))
            st = cs.state
            lock = st.lock
            # ---- the observer: every guarded method must be entered with the state lock owned by the caller
            for name in GUARDED:
                orig = getattr(st, name)

                def mk(orig, name):
                    def f(*a, **kw):
                        out["guarded"] += 1
                        if not lock.owned_by_current():
                            if len(out["lock"]) < 5:
                                import traceback
                                stack = [fs.name for fs in traceback.extract_stack()[:-1] if "/cloudsync/" in fs.filename][-5:]
                                out["lock"].append("%s() called by thread %s without the state lock (owner: %s); call path %s" % (name, s.current().name, lock.owner.name if lock.owner else None, ">".join(stack)))
                        elif sum(1 for t in s.threads if t.state == "run") > 1:
                            out["contended"] += 1
                        return orig(*a, **kw)
                    return f
                setattr(st, name, mk(orig, name))
            cs.start()

            def user():
                for at, side, op in case["ops"]:
                    s.sleep(at)
                    try:
                        user_op(provs[side], roots[side], op[0], tuple(op[1:]))
                    except Exception as e:      # pylint: disable=broad-except
                        out["errors"].append("user op %s raised %r" % (op, e))

            def app(k):
                rng = random.Random(case["sched_seed"] + k)
                for _ in range(case["app_calls"]):
                    s.sleep(rng.choice([0.001, 0.01, 0.05]))
                    c = rng.randrange(6)
                    try:
                        if c == 0:
                            cs.busy         # pylint: disable=pointless-statement
                        elif c == 1:
                            cs.change_count()
                        elif c == 2:
                            cs.aging = rng.choice([0.002, 0.01])
                        elif c == 3:
                            cs.walk(rng.randrange(2))
                        elif c == 4 and case.get("smart"):
                            list(cs.smart_listdir_path("/local"))
                        elif c == 5 and case.get("smart"):
                            t = read_tree(provs[1], roots[1]) or {}
                            fs = [k2 for k2, v in t.items() if v[0] == "f"]
                            if fs:
                                cs.smart_sync_path("/local" + rng.choice(sorted(fs)), 0)
                    except Exception as e:      # pylint: disable=broad-except
                        import cloudsync.exceptions as cex
                        if not isinstance(e, cex.CloudException):
                            out["errors"].append("application call %d raised %r" % (c, e))
            ths = [T.SimThread(s, target=user, name="user")] + [T.SimThread(s, target=app, args=(k,), name="app%d" % k) for k in range(case["apps"])]
            for t in ths:
                t.start()
            for t in ths:
                t.join()
            idle = 0
            for _ in range(400):
                s.sleep(0.05)
                if not cs.busy:
                    idle += 1
                    if idle >= 3:
                        break
                else:
                    idle = 0
            out["busy"] = idle < 3
            cs.stop(forever=True, wait=True)
            out["alive"] = [t.name for t in s.threads if t.is_alive() and t is not s.main]
            for p in provs:
                if not p.connected:
                    p.connect(CREDS)
            out["trees"] = (read_tree(provs[0], roots[0]), read_tree(provs[1], roots[1]))
            out["index"] = index_violation(st)
        try:
            s.run_main(main)
        except T.SimAbort:
            pass
    finally:
        T.uninstall()
    return s, out


def _violation(case, s, out):
    if out["lock"]:
        return ("unlocked-mutation", out["lock"][0] + (" (+%d more)" % (len(out["lock"]) - 1) if len(out["lock"]) > 1 else ""))
    if s.aborted and s.aborted != "finished":
        return ("hang", "the scheduler gave up: %s" % s.aborted)
    if s.thread_errors:
        return ("thread-died", "an exception escaped a thread: %s" % (s.thread_errors[:2],))
    if out["errors"]:
        return ("api-raised", out["errors"][0])
    if out["alive"]:
        return ("alive-after-stop", "threads still alive after stop(): %s" % out["alive"])
    if out["index"]:
        return ("index-broken", "after the threaded run: %s" % out["index"])
    if out["busy"]:
        return ("nonquiescent", "engine still busy after 20 virtual seconds")
    if not case.get("smart") and out["trees"] is not None:
        a, b = strip_conflicted(out["trees"][0] or {}), strip_conflicted(out["trees"][1] or {})
        if a != b:
            toks, d = diff_trees(a, b)
            return ("diverged", d)
    return None


def _evaluate(case):
    s, out = _run(case)
    v = _violation(case, s, out)
    shape = "%s|%s|%s|%s" % (case["flavour"], case.get("smart"), " ".join("%d:%s" % (o[1], o[2][0]) for o in case["ops"]), s.digest())
    st = {"shape": shape, "nontrivial": s.switches >= 20 and out["contended"] >= 1, "fingerprints": [s.digest()], "sim_s": s.now - T.T0,
          "faults": {"preemptions": s.preempts, "thread-switches": s.switches}, "probes": {"guarded-calls-observed": out["guarded"], "guarded-calls-while-others-runnable": out["contended"],
                                                                                         "scheduling-decisions": s.decisions},
          "family": "smart" if case.get("smart") else "plain", "digest": s.digest(),
          "sample": {k: case[k] for k in ("flavour", "smart", "ops", "apps", "app_calls", "sched_seed", "preempt_p")}}
    return {"case": case, "violation": {"cls": v[0], "detail": v[1]} if v else None, "stats": st}


def generate(rng, tier, index):
    from sim import model as M
    flav = rng.choice(["oo", "po", "pp", "of"])
    trees = ({}, {})
    ops = []
    ctr = [0]

    def pay():
        ctr[0] += 1
        return "t%d" % ctr[0]
    smart = rng.random() < 0.25
    for _ in range(rng.randint(1, 6)):
        side = 1 if smart else rng.randrange(2)
        # each side's user works in its own folder-free name space half, so that the outcome is a plain merge
        op = propose(rng, trees[side], MIX, pay, names_f=("a%d" % side, "b%d" % side), names_d=("d%d" % side,))
        if op and M.apply(trees[side], op[0], op[1:]):
            ops.append([rng.choice([0.0, 0.001, 0.02, 0.2]), side, list(op)])
    case = {"prop": ID, "flavour": flav, "smart": smart, "ops": ops, "apps": rng.randint(0, 2), "app_calls": rng.randint(1, 6),
            "sched_seed": rng.randrange(1 << 30), "preempt_p": rng.choice([0.0, 0.005, 0.02, 0.05]), "cfg": {"flavour": flav}}
    return _evaluate(case)


def replay(case):
    return _evaluate(dict(case))


def minimise(case, viol):
    best = dict(case)

    def fails(c):
        try:
            r = replay(c)
        except Exception:
            return False
        return bool(r["violation"]) and r["violation"]["cls"] == viol["cls"]
    ops = list(best["ops"])
    i = 0
    while i < len(ops):
        cand = ops[:i] + ops[i + 1:]
        c2 = dict(best, ops=cand)
        if fails(c2):
            ops = cand
            best = c2
        else:
            i += 1
    for key, val in (("apps", 0), ("preempt_p", 0.0)):
        c2 = dict(best, **{key: val})
        if best[key] != val and fails(c2):
            best = c2
    return best


_WARM = [False]


def warmup():
    """CPython 3.12 delivers a slightly different line-event sequence the first time a code object runs under sys.settrace in a
    process; so that 'one seed = one execution' also holds for the first real run, every process first runs a fixed throw-away batch."""
    if _WARM[0]:
        return
    _WARM[0] = True
    import random as _r
    for k in range(12):
        try:
            generate(_r.Random(90000 + k), "quick", -1 - k)
        except Exception:   # pylint: disable=broad-except
            pass
