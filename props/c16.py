"""C16 Offline-runnable providers honour the provider contract (DESIGN 5/C16): API call sequences against a reference tree."""
import io
import os
import shutil

from sim import det
import cloudsync.exceptions as cex
from cloudsync.types import DIRECTORY, FILE

ID = "C16"
ENGINE = "sim-seq"
LEVEL = "exploration"
TECHNIQUE = "seeded provider-API call-sequence search against a reference tree with the documented outcome (value or error class) per call; virtual clock; real directory for the filesystem provider"
RULE = ("each case = a provider (MockProvider id-style/path-style x case-sensitive/insensitive, or FileSystemProvider on a real scratch directory) and 3-20 API calls drawn from create, mkdir, upload, rename, "
        "delete, info_path, info_oid, exists_path, exists_oid, listdir, download over a collision-prone name alphabet (a, b, A, 'ü x.txt', nested two levels; on case-insensitive providers objects are "
        "addressed in mixed case) with payloads of the size classes 0, <1 KiB, 1-2 KiB, >2 KiB, 100 KiB. Reference: a dict tree; per call the documented outcome - success value, or CloudFileExistsError "
        "(target exists / upload onto a folder / delete of a non-empty folder / rename onto a file or non-empty folder; a folder renamed onto an existing EMPTY folder replaces it - on the id-style mock the replaced folder's id must stop existing and be reported with exists=False), CloudFileNotFoundError (missing source or parent), silent delete of a missing id; "
        "reads agree with the tree and with each other; ids are stable across rename (id-style) or equal the new normalised path for the renamed object and everything below it (path-style); the hash "
        "reported for a file equals hash_data() of the same bytes and differs between different contents, in every size class; after every successful mutation the drained event stream contains an event "
        "with the object's id and the right existence (for the filesystem provider the pool of real watchdog/inotify threads is replaced by a SimObserverPool: the harness delivers, once or twice, the watchdog events inotify reports for each mutation, so the provider's own conversion, cursor and events() code is what is judged - not inotify itself); connecting with an identity "
        "different from the established one is refused. distinct = (provider, op-kind sequence with outcome classes); non-trivial = >=1 call whose documented outcome is an error and >=1 mutation succeeded.")
ASSUMPTIONS = ["where the Provider docstrings and the repo's provider tests leave two error classes open (e.g. creating below a FILE: exists or not-found) either is accepted",
               "filesystem provider: real os calls on a scratch directory under the per-process scratch root; watchdog events are synthesised by the harness (SimObserverPool), real inotify delivery is outside the simulator"]
LEVEL_TEXT = "seeded sequence search with a reference model, call by call"
LEVEL_NOTE = "trusted: the reference tree (props/c16.py); the outcome table is transcribed from Provider docstrings and cloudsync/tests/test_provider.py"
REAL = ["MockProvider/MockFS", "FileSystemProvider (real files)", "Provider base class (connect identity check, path helpers)"]
STUBS = ["clock (virtual)", "FileSystemProvider._observers (SimObserverPool instead of watchdog threads)"]

NAMES = ("a", "b", "A", "ü x.txt")
SIZES = (0, 5, 1500, 2500, 100_000)
PROVIDERS = ("mock_oid_cs", "mock_oid_ci", "mock_path_cs", "mock_path_ci", "fs")


def budget(tier):
    return {"quick": {"runs": 3000, "wall": 170}, "thorough": {"runs": 36000, "wall": 900}}[tier]


class Ref:
    """reference tree: key (casefolded if the provider is case-insensitive) -> [display path, kind, bytes, oid]"""
    def __init__(self, ci):
        self.ci = ci
        self.t = {}

    def k(self, p):
        return p.lower() if self.ci else p

    def get(self, p):
        return self.t.get(self.k(p))

    def kind(self, p):
        if p in ("", "/"):
            return "d"
        e = self.get(p)
        return e[1] if e else None

    def parent(self, p):
        return p.rsplit("/", 1)[0]

    def children(self, p):
        pre = self.k(p) + "/"
        return [e for k, e in self.t.items() if k.startswith(pre) and "/" not in k[len(pre):]]

    def under(self, p):
        pre = self.k(p) + "/"
        return [k for k in self.t if k.startswith(pre)]

    def by_oid(self, oid):
        for e in self.t.values():
            if e[3] == oid:
                return e
        return None


class SimObserverPool:
    """stands in for FileSystemProvider._observers (a pool of real watchdog/inotify threads): the harness itself delivers the
    watchdog events a mutation produces, so that the provider's own conversion / cursor / events() code runs deterministically"""
    def __init__(self):
        self.cbs = []

    def add(self, path, callback):
        if callback not in self.cbs:
            self.cbs.append(callback)

    def discard(self, path, callback):
        if callback in self.cbs:
            self.cbs.remove(callback)

    def deliver(self, event, times=1):
        for _ in range(times):
            for cb in list(self.cbs):
                cb(event)


def _fs_notify(pool, kind, is_dir, src, dst=None, dup=1):
    """what inotify reports for one successful mutation (paths are real file-system paths)"""
    from watchdog import events as we
    parent = os.path.dirname(src)
    if kind == "create":
        evs = [we.DirCreatedEvent(src) if is_dir else we.FileCreatedEvent(src)] + ([] if is_dir else [we.FileModifiedEvent(src)]) + [we.DirModifiedEvent(parent)]
    elif kind == "modify":
        evs = [we.FileModifiedEvent(src)]
    elif kind == "move":
        evs = [we.DirMovedEvent(src, dst) if is_dir else we.FileMovedEvent(src, dst), we.DirModifiedEvent(parent), we.DirModifiedEvent(os.path.dirname(dst))]
    else:
        evs = [we.DirDeletedEvent(src) if is_dir else we.FileDeletedEvent(src), we.DirModifiedEvent(parent)]
    for e in evs:
        pool.deliver(e, dup)


def _mk(name):
    det.reset_world_globals()
    if name == "fs":
        from cloudsync.providers.filesystem import FileSystemProvider
        root = os.path.join(det.scratch_root(), "fsroot")
        os.makedirs(root, exist_ok=True)
        FileSystemProvider._observers = SimObserverPool()
        p = FileSystemProvider()
        p.namespace_id = root
        p.connect({"key": "val"})
        return p, p.case_sensitive is False
    from cloudsync.providers.mock import MockProvider
    _, style, case = name.split("_")
    p = MockProvider(oid_is_path=(style == "path"), case_sensitive=(case == "cs"))
    p.connect({"key": "val"})
    return p, case == "ci"


def _payload(n, size):
    head = ("p%d:" % n).encode()
    return head + bytes((i * 7 + n) % 251 for i in range(max(0, size - len(head)))) if size else b""


def _run(case):
    prov, ci = _mk(case["provider"])
    is_fs = case["provider"] == "fs"
    path_ids = prov.oid_is_path
    ref = Ref(ci)
    errs = muts = 0
    outcomes = []
    try:
        for n, op in enumerate(case["plan"]):
            k = op[0]

            def bad(msg):
                return ("contract", "op #%d %s on %s: %s" % (n, op, case["provider"], msg)), errs, muts, outcomes
            expect_exc = None       # tuple of acceptable exception classes, or None for success
            try:
                if k in ("create", "mkdir"):
                    path = op[1]
                    par = ref.parent(path)
                    if k == "create":
                        if ref.kind(path) is not None:
                            expect_exc = (cex.CloudFileExistsError,)
                        elif ref.kind(par) is None:
                            expect_exc = (cex.CloudFileNotFoundError,)
                        elif ref.kind(par) == "f":
                            expect_exc = (cex.CloudFileExistsError, cex.CloudFileNotFoundError)
                        data = _payload(n, SIZES[op[2]])
                        r = prov.create(path, io.BytesIO(data))
                        if expect_exc:
                            return bad("succeeded, documented outcome is %s" % "/".join(c.__name__ for c in expect_exc))
                        if r is None or r.oid is None:
                            return bad("create returned %r" % (r,))
                        ref.t[ref.k(path)] = [path, "f", data, r.oid]
                        obj = r.oid
                    else:
                        if ref.kind(path) == "f":
                            expect_exc = (cex.CloudFileExistsError,)
                        elif ref.kind(path) is None and ref.kind(par) is None:
                            expect_exc = (cex.CloudFileNotFoundError,)
                        elif ref.kind(path) is None and ref.kind(par) == "f":
                            expect_exc = (cex.CloudFileExistsError, cex.CloudFileNotFoundError)
                        oid = prov.mkdir(path)
                        if expect_exc:
                            return bad("succeeded, documented outcome is %s" % "/".join(c.__name__ for c in expect_exc))
                        if ref.kind(path) == "d":
                            if oid != ref.get(path)[3]:
                                return bad("mkdir of an existing folder returned id %r, the folder's id is %r" % (oid, ref.get(path)[3]))
                            outcomes.append("ok")
                            continue
                        ref.t[ref.k(path)] = [path, "d", None, oid]
                        obj = oid
                    muts += 1
                    if is_fs:
                        _fs_notify(prov._observers, "create", k == "mkdir", obj, dup=case.get("fsdup", 1))
                    ev = _drain(prov, is_fs)
                    if ev is not None and not any(e.oid == obj and e.exists is not False for e in ev):
                        return bad("no event with id %r and exists!=False after the successful call (got %s)" % (obj, [(e.oid, e.exists) for e in ev][:5]))
                elif k == "upload":
                    e = ref.get(op[1])
                    oid = e[3] if e else ("/no/such" if path_ids else "no-such-id")
                    if e is None:
                        expect_exc = (cex.CloudFileNotFoundError,)
                    elif e[1] == "d":
                        expect_exc = (cex.CloudFileExistsError,)
                    data = _payload(n, SIZES[op[2]])
                    r = prov.upload(oid, io.BytesIO(data))
                    if expect_exc:
                        return bad("succeeded, documented outcome is %s" % "/".join(c.__name__ for c in expect_exc))
                    e[2] = data
                    muts += 1
                    if is_fs:
                        _fs_notify(prov._observers, "modify", False, oid, dup=case.get("fsdup", 1))
                    ev = _drain(prov, is_fs)
                    if ev is not None and not any(x.oid == oid and x.exists is not False for x in ev):
                        return bad("no event for id %r after upload" % (oid,))
                elif k == "rename":
                    src, dst = op[1], op[2]
                    e = ref.get(src)
                    oid = e[3] if e else ("/no/such" if path_ids else "no-such-id")
                    dk = ref.kind(dst)
                    same = e is not None and ref.k(src) == ref.k(dst)
                    replaced = None
                    if e is not None and not same and (ref.k(dst) + "/").startswith(ref.k(src) + "/"):
                        outcomes.append("skip")
                        continue                    # into its own subtree: not a legal call
                    if e is None:
                        expect_exc = (cex.CloudFileNotFoundError,)
                    elif ref.kind(ref.parent(dst)) is None:
                        expect_exc = (cex.CloudFileNotFoundError,)
                    elif ref.kind(ref.parent(dst)) == "f":
                        expect_exc = (cex.CloudFileExistsError, cex.CloudFileNotFoundError)
                    elif not same and dk == "f":
                        expect_exc = (cex.CloudFileExistsError,)
                    elif not same and dk == "d" and (ref.children(dst) or e[1] == "f"):
                        expect_exc = (cex.CloudFileExistsError,)
                    elif not same and dk == "d":
                        if is_fs or path_ids:
                            outcomes.append("skip")
                            continue                # folder onto an existing empty folder: replaces it; modelled for the id-style mock only
                        replaced = ref.get(dst)[3]  # (there the replaced folder has an id of its own, whose disappearance must be reported)
                    new_oid = prov.rename(oid, dst)
                    if expect_exc:
                        return bad("succeeded, documented outcome is %s" % "/".join(c.__name__ for c in expect_exc))
                    if not path_ids and new_oid != oid:
                        return bad("id changed across rename on an id-style provider: %r -> %r" % (oid, new_oid))
                    moved = [(kk, ref.t[kk]) for kk in [ref.k(src)] + ref.under(src)]
                    for kk, _ in moved:
                        del ref.t[kk]
                    for kk, ent in moved:
                        rel = ent[0][len(src):]
                        ent[0] = dst + rel
                        ref.t[ref.k(dst + rel)] = ent
                    ref.get(dst)[3] = new_oid
                    if path_ids:
                        for kk, ent in moved:
                            info = prov.info_path(ent[0])
                            if info is None:
                                return bad("after the rename info_path(%r) finds nothing" % (ent[0],))
                            ent[3] = info.oid
                    muts += 1
                    if is_fs and not same:
                        _fs_notify(prov._observers, "move", e[1] == "d", oid, new_oid, dup=case.get("fsdup", 1))
                    ev = _drain(prov, is_fs)
                    if ev is not None and not same and not any(x.oid == new_oid and x.exists is not False for x in ev):
                        return bad("no event with the renamed object's id %r after rename (got %s)" % (new_oid, [(x.oid, x.exists) for x in ev][:5]))
                    if ev is not None and replaced is not None and replaced != new_oid and not any(x.oid == replaced and x.exists is False for x in ev):
                        return bad("rename onto the empty folder %r replaced it, but no event with its id %r and exists=False followed (got %s)" % (dst, replaced, [(x.oid, x.exists) for x in ev][:5]))
                    if replaced is not None and replaced != new_oid and prov.exists_oid(replaced):
                        return bad("rename onto the empty folder %r: the replaced folder's id %r still exists" % (dst, replaced))
                elif k == "delete":
                    e = ref.get(op[1])
                    oid = e[3] if e else ("/no/such" if path_ids else "no-such-id")
                    if e is not None and e[1] == "d" and ref.children(op[1]):
                        expect_exc = (cex.CloudFileExistsError,)
                    prov.delete(oid)
                    if expect_exc:
                        return bad("succeeded, documented outcome is %s" % "/".join(c.__name__ for c in expect_exc))
                    if e is not None:
                        del ref.t[ref.k(op[1])]
                        muts += 1
                        if is_fs:
                            _fs_notify(prov._observers, "delete", e[1] == "d", oid, dup=case.get("fsdup", 1))
                        ev = _drain(prov, is_fs)
                        if ev is not None and not any(x.oid == oid and x.exists is False for x in ev):
                            return bad("no event with id %r and exists=False after delete (got %s)" % (oid, [(x.oid, x.exists) for x in ev][:5]))
                elif k == "read":
                    path = op[1]
                    e = ref.get(path)
                    info = prov.info_path(path)
                    if (info is None) != (e is None):
                        return bad("info_path(%r) = %r, the reference tree says %s" % (path, info, "nothing there" if e is None else e[1]))
                    if prov.exists_path(path) != (e is not None):
                        return bad("exists_path(%r) = %r disagrees with the tree" % (path, prov.exists_path(path)))
                    if e is not None:
                        if (info.otype == DIRECTORY) != (e[1] == "d"):
                            return bad("info_path(%r) reports type %s, the tree says %s" % (path, info.otype, e[1]))
                        if info.oid != e[3]:
                            return bad("info_path(%r).oid = %r, the id handed out for it is %r" % (path, info.oid, e[3]))
                        i2 = prov.info_oid(e[3])
                        if i2 is None or i2.otype != info.otype or not prov.paths_match(i2.path, info.path):
                            return bad("info_oid(%r) = %r disagrees with info_path(%r) = %r" % (e[3], i2, path, info))
                        if not prov.exists_oid(e[3]):
                            return bad("exists_oid(%r) is False for a live object at %r" % (e[3], path))
                        if e[1] == "f":
                            b = io.BytesIO()
                            prov.download(e[3], b)
                            if b.getvalue() != e[2]:
                                return bad("download returned %d bytes that differ from the %d bytes last written" % (len(b.getvalue()), len(e[2])))
                            hd = prov.hash_data(io.BytesIO(e[2]))
                            if info.hash != hd:
                                return bad("hash reported for %r (%d bytes) differs from hash_data() of the same bytes" % (path, len(e[2])))
                            if prov.hash_oid(e[3]) != hd:
                                return bad("hash_oid for %r (%d bytes) differs from hash_data() of the same bytes" % (path, len(e[2])))
                            for o in ref.t.values():
                                if o[1] == "f" and o is not e and o[2] != e[2]:
                                    oi = prov.info_oid(o[3])
                                    if oi is not None and oi.hash == info.hash:
                                        return bad("files %r and %r have different contents but the same reported hash" % (path, o[0]))
                        else:
                            got = sorted(prov.normalize_path(x.name) if ci else x.name for x in prov.listdir(e[3]))
                            want = sorted((prov.normalize_path(c[0].rsplit("/", 1)[1]) if ci else c[0].rsplit("/", 1)[1]) for c in ref.children(path))
                            if got != want:
                                return bad("listdir(%r) = %s, the tree holds %s" % (path, got, want))
                outcomes.append("ok")
            except cex.CloudException as e:
                if expect_exc is None:
                    return bad("raised %s(%s), documented outcome is success" % (type(e).__name__, str(e)[:80]))
                if not isinstance(e, expect_exc):
                    return bad("raised %s, documented outcome is %s" % (type(e).__name__, "/".join(c.__name__ for c in expect_exc)))
                errs += 1
                outcomes.append(type(e).__name__[5:9])
            except Exception as e:      # pylint: disable=broad-except
                return ("exception", "op #%d %s on %s raised %s: %s" % (n, op, case["provider"], type(e).__name__, str(e)[:120])), errs, muts, outcomes
        # identity check: an established provider refuses a different identity
        if not is_fs:
            orig = prov.connect_impl
            prov.disconnect()
            prov.connect_impl = lambda creds: "someone-else"
            try:
                prov.connect({"key": "val"})
                return ("contract", "connecting with credentials of a different identity was accepted"), errs, muts, outcomes
            except cex.CloudTokenError:
                pass
            finally:
                prov.connect_impl = orig
    finally:
        try:
            prov.disconnect()
        except Exception:   # pylint: disable=broad-except
            pass
        if is_fs:
            shutil.rmtree(os.path.join(det.scratch_root(), "fsroot"), ignore_errors=True)
    return None, errs, muts, outcomes


def _drain(prov, is_fs):
    return list(prov.events())


def _evaluate(case):
    v, errs, muts, outcomes = _run(case)
    shape = "%s|%s" % (case["provider"], " ".join("%s:%s" % (o[0][:3], r) for o, r in zip(case["plan"], outcomes)))
    st = {"shape": shape, "nontrivial": errs >= 1 and muts >= 1, "fingerprints": [], "sim_s": 0.0, "faults": {}, "probes": {"documented-error-outcomes": errs, "successful-mutations": muts},
          "family": case["provider"], "sample": {"provider": case["provider"], "plan": case["plan"][:30]}}
    return {"case": case, "violation": {"cls": v[0], "detail": v[1], "mech": case["provider"]} if v else None, "stats": st}


def _path(rng, ci):
    parts = [rng.choice(NAMES) for _ in range(rng.randint(1, 2))]
    return "/" + "/".join(parts)


def generate(rng, tier, index):
    provider = rng.choice(PROVIDERS)
    ci = provider.endswith("_ci")
    plan = []
    for _ in range(rng.randint(3, 20)):
        r = rng.random()
        if r < 0.22:
            plan.append(["create", _path(rng, ci), rng.randrange(len(SIZES))])
        elif r < 0.37:
            plan.append(["mkdir", _path(rng, ci)])
        elif r < 0.47:
            plan.append(["upload", _path(rng, ci), rng.randrange(len(SIZES))])
        elif r < 0.62:
            plan.append(["rename", _path(rng, ci), _path(rng, ci)])
        elif r < 0.72:
            plan.append(["delete", _path(rng, ci)])
        else:
            plan.append(["read", _path(rng, ci)])
    return _evaluate({"prop": ID, "provider": provider, "plan": plan, "family": provider, "cfg": {}, "fsdup": rng.choice([1, 1, 2])})


def replay(case):
    return _evaluate(dict(case))
