"""C08 Persisted sync state == in-memory state, reload-equivalent, codec round-trip (DESIGN 5/C08)."""
import msgpack

from .common import (Exec, gen_history, Violation, weighted, random_mix, drive, ALL_FLAVOURS, REAL, STUBS)
from .monitors import storage_violation, reload_violation
from sim import det
from sim.det import statemod

ID = "C08"
LEVEL = "exploration"
TECHNIQUE = "deterministic simulation: storage rows decoded and compared with the live entries after every simulated engine step; reload equivalence; seeded codec round-trip"
RULE = ("family 'engine': the C01 run families, with the event feed additionally breaking (CloudTemporaryError) after 0-2 events of an intake in a third of the split-intake steps, so that batches are abandoned half-way, and in a fifth of the runs a synchronised file turned unreadable on one side (CloudCorruptError on download) so that the corrupt marker and its saved existence are persisted too; after every event-intake step, every sync step and at quiet the rows stored under the sync's tag are decoded and compared "
        "with the live non-trash entries (exactly one row per entry, equal decoded content, no orphan row) and, on a sample of boundaries, a second SyncState is built from a copy "
        "of the rows and compared (entries, id/path lookups, pending set). family 'codec' (generated inputs, not simulated runs): SyncEntry.serialize -> deserialize round trip over "
        "hash shapes bytes/str/int/nested tuple/dict, unicode paths, None fields, every Exists/IgnoreReason incl. the corrupt marker with its saved value, and legacy rows "
        "(boolean exists, discarded/conflicted keys). distinct = (history shape, schedule, flavour) resp. the field-shape signature; non-trivial = >=1 engine write and interleaved step.")
ASSUMPTIONS = ["SimStorage (dict) stands for the storage interface; SqliteStorage itself is C09's subject", "bounded histories",
               "rows are compared after decoding with msgpack (byte-level differences that decode equal are not differences)"]
LEVEL_TEXT = "seeded exploration with an invariant evaluated at every step boundary (about 40 per run) plus a generated-input codec sub-check labelled as such"
LEVEL_NOTE = "trusted: props/monitors.py comparison (decoded rows vs live entries)"


def budget(tier):
    return {"quick": {"runs": 5000, "wall": 150}, "thorough": {"runs": 60000, "wall": 900}}[tier]


class StorageMonitor:
    def __init__(self, reload_every=7):
        self.n = 0
        self.reload_every = reload_every
        self.reloads = 0

    def __call__(self, ex, item):
        w = ex.world
        if w.cs is None:
            return
        self.n += 1
        st = w.cs.state
        rows = w.sd.get(st._tag, {})
        r = storage_violation(st, rows)
        if r:
            cls, msg, fields = r
            mech = ""
            if item[0] == "S":
                mech = "after-%s-step" % ("sync" if item[1] == 2 else "event")
            raise Violation(cls, "after %s: %s" % (item, msg), fields=list(fields), mech=mech + ":" + ",".join(fields))
        if self.n % self.reload_every == 0 or item[0] == "Q":
            self.reloads += 1
            m = reload_violation(w)
            if m:
                raise Violation("reload-differs", "after %s: %s" % (item, m))


def _x_corrupt(ex, side, rel):
    """from now on the provider reports the object at rel as unreadable (download raises CloudCorruptError): the engine then
    records the corrupt marker and the saved existence, which are part of what C08 says is persisted"""
    w = ex.world
    info = w.provs[side].info_path(w.roots[side] + rel)
    if not info or info.otype.value != "file":
        return False
    w.ctl.corrupt.setdefault(side, set()).add(info.oid)
    return True


def _setup(ex, case):
    ex.smon = StorageMonitor(reload_every=case.get("reload_every", 7))
    ex.monitors.append(ex.smon)
    ex.actions["corrupt"] = _x_corrupt
    orig_disarm = ex.world.ctl.disarm

    def disarm():
        keep = dict(ex.world.ctl.corrupt)
        orig_disarm()
        ex.world.ctl.corrupt = keep         # an unreadable object stays unreadable through the epilogue
    ex.world.ctl.disarm = disarm


def _verdict(ex, case):
    ex.probes = {"boundaries-checked": ex.smon.n, "reloads-compared": ex.smon.reloads}
    return None


# ------------------------------------------------------------------ codec family (generated inputs)
def _rand_hash(rng, depth=0):
    k = rng.randrange(7 if depth < 2 else 4)
    if k == 0:
        return None
    if k == 1:
        return bytes(rng.randrange(256) for _ in range(rng.randrange(0, 9)))
    if k == 2:
        return rng.choice(["", "abc", "hé中", "a" * 40])
    if k == 3:
        return rng.randrange(-5, 2 ** 40)
    if k == 4:
        return tuple(_rand_hash(rng, depth + 1) for _ in range(rng.randrange(0, 3)))
    if k == 5:
        return {rng.choice(["a", "b", "ü"]): _rand_hash(rng, depth + 1) for _ in range(rng.randrange(0, 3))}
    return [1, "x"][rng.randrange(2)]


def _codec_case(rng):
    from cloudsync.sync.state import Exists, IgnoreReason
    sides = []
    for _ in range(2):
        sides.append({
            "oid": rng.choice([None, "o1", "/p/ä b", 17, b"\x00\xff"]),
            "path": rng.choice([None, "/r/a", "/r/中文/x.txt", "/R/A b"]),
            "hash": _rand_hash(rng), "sync_hash": _rand_hash(rng),
            "sync_path": rng.choice([None, "/r/a", "/r/é"]),
            "exists": rng.choice(["exists", "trashed", "missing", "unknown", "likely-trashed", "corrupt"]),
            "saved": rng.choice(["exists", "trashed", "missing", "unknown"]),
            "changed": rng.choice([None, 0, 1, 1000000.25]),
            "size": rng.choice([None, 0, 5, 2 ** 33]), "mtime": rng.choice([None, 0, 1.5e9]),
        })
    return {"otype": rng.choice(["file", "dir"]), "sides": sides, "ignored": rng.choice(["none", "discarded", "conflict", "irrelevant", "temp-rename"][:4]),
            "legacy": rng.choice([None, None, "bool-exists", "discarded-key", "conflicted-key"])}


def _mk_state():
    from cloudsync.providers.mock import MockProvider
    det.reset_world_globals()
    provs = []
    for i in range(2):
        p = MockProvider(oid_is_path=False, case_sensitive=True)
        p.connection_id = "conn%d" % i
        p.connect({"key": "val"})
        provs.append(p)
    from sim.world import SimStorage, Ctl
    sd = {}
    return statemod.SyncState(tuple(provs), SimStorage(sd, Ctl()), tag="t", shuffle=False), sd


FIELDS = ("oid", "path", "hash", "sync_hash", "sync_path", "exists", "changed", "size", "mtime")


def _norm(v):
    if isinstance(v, list):
        return tuple(_norm(x) for x in v)
    if isinstance(v, tuple):
        return tuple(_norm(x) for x in v)
    if isinstance(v, dict):
        return {k: _norm(x) for k, x in v.items()}
    return v


def _codec_run(c):
    from cloudsync.sync.state import Exists, IgnoreReason, SyncEntry
    from cloudsync.types import DIRECTORY, FILE
    st, sd = _mk_state()
    EX = {e.value: e for e in Exists}
    IG = {e.value: e for e in IgnoreReason}
    ent = SyncEntry(st, DIRECTORY if c["otype"] == "dir" else FILE)
    st._loading = True          # field-by-field construction without index side effects (as deserialisation does)
    try:
        for i, s in enumerate(c["sides"]):
            sd_ = ent[i]
            for k in ("oid", "path", "hash", "sync_hash", "sync_path", "changed", "size", "mtime"):
                object.__setattr__(sd_, "_" + k, s[k])
            if s["exists"] == "corrupt":
                object.__setattr__(sd_, "_exists", Exists.CORRUPT)
                object.__setattr__(sd_, "_saved_exists", EX[s["saved"]])
            else:
                object.__setattr__(sd_, "_exists", EX[s["exists"]])
        object.__setattr__(ent, "_ignored", IG.get(c["ignored"], IgnoreReason.NONE))
    finally:
        st._loading = False
    raw = ent.serialize()
    if c["legacy"]:
        d = msgpack.loads(raw, use_list=False, raw=False)
        d = dict(d)
        if c["legacy"] == "bool-exists":
            for key in ("side0", "side1"):
                if key in d:
                    sdict = dict(d[key])
                    want = c["sides"][int(key[-1])]["exists"]
                    if want in ("exists", "trashed", "unknown"):
                        sdict["exists"] = {"exists": True, "trashed": False, "unknown": None}[want]
                        d[key] = sdict
        elif c["legacy"] == "discarded-key":
            d.pop("ignored", None)
            d["discarded"] = True
        elif c["legacy"] == "conflicted-key":
            d.pop("ignored", None)
            d["conflicted"] = True
        raw = msgpack.dumps(d, use_bin_type=True)
    st._loading = True
    try:
        ent2 = SyncEntry(st, None, (123, raw))
    finally:
        st._loading = False
    for i in (0, 1):
        for k in FIELDS:
            a, b = getattr(ent[i], k), getattr(ent2[i], k)
            if k in ("size", "mtime", "changed") :
                if (a or 0) != (b or 0):
                    return Violation("codec", "side %d field %s: wrote %r, loaded %r (case %s)" % (i, k, a, b, c))
                continue
            if _norm(a) != _norm(b):
                return Violation("codec", "side %d field %s: wrote %r, loaded %r (case %s)" % (i, k, a, b, c))
        if ent[i].is_corrupt and ent[i]._saved_exists != ent2[i]._saved_exists:
            return Violation("codec", "side %d saved existence of a corrupt marker: wrote %r, loaded %r" % (i, ent[i]._saved_exists, ent2[i]._saved_exists))
    want_ign = ent.ignored
    if c["legacy"] == "discarded-key":
        want_ign = IgnoreReason.DISCARDED
    elif c["legacy"] == "conflicted-key":
        want_ign = IgnoreReason.CONFLICT
    if ent2.ignored != want_ign:
        return Violation("codec", "ignore reason: wrote %r (legacy=%s), loaded %r" % (want_ign, c["legacy"], ent2.ignored))
    if ent2.storage_id != 123:
        return Violation("codec", "storage id not restored: %r" % (ent2.storage_id,))
    raw2 = ent2.serialize()
    if not c["legacy"] and msgpack.loads(raw2, use_list=False, raw=False) != msgpack.loads(raw, use_list=False, raw=False):
        return Violation("codec", "serialize(deserialize(x)) != x for case %s" % (c,))
    return None


def _codec_result(case):
    try:
        v = _codec_run(case["plan"][0])
    except Violation as e:
        v = e
    c = case["plan"][0]
    shape = "codec|%s|%s|%s|%s" % (c["otype"], c["ignored"], c["legacy"], "|".join("%s,%s,%s" % (s["exists"], type(s["hash"]).__name__, type(s["oid"]).__name__) for s in c["sides"]))
    return {"case": case, "violation": v.as_dict() if v else None,
            "stats": {"shape": shape, "nontrivial": True, "family": "codec", "fingerprints": [], "sim_s": 0.0, "sample": {"family": "codec", "plan": case["plan"]}}}


def generate(rng, tier, index):
    if rng.random() < 0.25:
        return _codec_result({"prop": ID, "cfg": {}, "family": "codec", "plan": [_codec_case(rng)]})
    flav = rng.choice(ALL_FLAVOURS)
    style = weighted(rng, (("eager", 2), ("batched", 4), ("bursty", 2), ("split", 4)))
    case = {"prop": ID, "cfg": {"flavour": flav}, "style": style, "family": style}
    corrupt = rng.random() < 0.2

    def body(ex):
        if corrupt:
            # a synchronised file becomes unreadable on one side, then the history goes on (writes to it included)
            side = rng.randrange(2)
            ex.apply(["U", side, "create", "/a", ex.new_payload()])
            ex.apply(["Q"])
            ex.apply(["X", "corrupt", rng.randrange(2), "/a"])
        gen_history(rng, ex, rng.randint(1, 7), style=style, mix=random_mix(rng), midfail=0.35)
    return drive(case, body, _verdict, setup=_setup, generating=True)


def replay(case):
    case = dict(case)
    if case.get("family") == "codec":
        return _codec_result(case)
    return drive(case, lambda ex: ex.run(case["plan"]), _verdict, setup=_setup)
