"""C20 On-demand sync (DESIGN 5/C20): the real SmartCloudSync under the step driver."""
from .common import (Exec, Violation, weighted, drive, sched_after_op, REAL, STUBS, diff_trees, tree_str)
from sim.plan import propose
from sim.world import World, SimSmartCS
import cloudsync.exceptions as cex

ID = "C20"
LEVEL = "exploration"
TECHNIQUE = "deterministic simulation: seeded step scheduler over the real SmartCloudSync; request/un-request/listing calls interleaved with user operations and engine steps; requested-set reference model"
RULE = ("each run = flavour pair (oo, po), optional auto-sync predicate (by file name), history of 2-9 operations drawn from: remote create/overwrite/delete/mkdir, local create, local overwrite of a present "
        "file, application calls smart_sync_path / smart_sync_oid / smart_unsync_path / smart_unsync_oid / smart_listdir_path, interleaved with engine steps (eager|batched|split); in a fifth of the runs the providers raise temporary errors at 2-5 % of the engine's calls until the epilogue (the oracles apply once the faults have stopped). Reference model: "
        "requested = explicit requests + predicate matches + locally created, minus un-requests. Invariants after every step and call: every local FILE is in the requested set (or was created "
        "locally); the engine never issues a remote delete (users never delete locally in this family). At quiet: folders are mirrored; every requested file that exists remotely is local with the same "
        "bytes; every local creation is on the remote; every version a user wrote and no user destroyed still exists somewhere (so an un-request uploaded newer local bytes first); the merged listing of "
        "every folder reports exactly local files as synced and known remote-only files as not synced. distinct = (history shape, schedule, flavour, predicate); non-trivial = >=1 request or un-request "
        "call performed and >=1 engine write.")
ASSUMPTIONS = ["MockProvider is the cloud contract", "local users only create and overwrite (a local delete in on-demand mode is the application's smart_delete_path, not covered)", "bounded histories"]
LEVEL_TEXT = "seeded exploration with step-boundary invariants and quiet-state oracles against a requested-set model"
LEVEL_NOTE = "trusted: the model's bookkeeping of the requested set (props/c20.py)"


class SmartWorld(World):
    engine_class = SimSmartCS


def budget(tier):
    return {"quick": {"runs": 4000, "wall": 170}, "thorough": {"runs": 48000, "wall": 900}}[tier]


FAILED = object()


def _engine_call(ex, fn):
    """an application thread calling into the engine; returns FAILED if the call raised (the request did not take effect)"""
    w = ex.world
    w.ctl.engine = True
    try:
        return fn()
    except (cex.CloudException, TypeError, AttributeError) as e:
        # (TypeError: smart_unsync_oid() of an entry that is not in the request set dereferences None; AttributeError: a request by
        #  id for an entry whose remote path is not known yet reaches dirname(None) - both recorded as probes, the call simply failed)
        ex.probes["app-call-raised:" + type(e).__name__] = ex.probes.get("app-call-raised:" + type(e).__name__, 0) + 1
        return FAILED
    finally:
        w.ctl.engine = False
        w.ctl.depth = 0
        w.drain_notifications()


class Invariant:
    def __call__(self, ex, item):
        w = ex.world
        if w.cs is None:
            return
        t0 = w.tree(0) or {}
        for rel, v in t0.items():
            if v[0] == "f" and ".conflicted" not in rel and rel not in ex.allowed_local and not (_pred(ex, rel) and rel not in ex.excluded):
                raise Violation("unrequested-download", "after %s: local file %s exists although it was never requested (requested=%s, predicate=%s)" % (item, rel, sorted(ex.requested), ex.pred),
                                paths=[rel])
        for wr in w.ctl.writes[ex.writes_seen:]:
            if wr[1] == 1 and wr[2] == "delete":
                raise Violation("remote-delete", "after %s: the engine deleted a remote object %s although no local user deleted anything" % (item, wr[3]))
        ex.writes_seen = len(w.ctl.writes)


def _pred(ex, rel):
    return bool(ex.pred) and rel.rsplit("/", 1)[-1] == ex.pred


def _setup(ex, case):
    w = ex.world
    ex.requested = set()
    ex.allowed_local = set()     # for the step invariant: everything that was ever legitimately local and not un-requested since
    ex.excluded = set()          # explicitly un-requested: the predicate no longer applies
    ex.local_created = set()
    ex.pred = case.get("pred")
    ex.calls = 0
    ex.writes_seen = 0
    ex.probes = {}
    fc = case.get("faults")
    if case.get("fault_table") is not None:
        w.ctl.faults = {int(k): tuple(v) for k, v in case["fault_table"].items()}
    elif fc:
        import random
        frng = random.Random(case.get("fault_seed", 0))

        def gen(idx, side, name, a):
            return ("temp", False) if frng.random() < fc["rate"] else None
        w.ctl.fault_gen = gen
    if ex.pred:
        w.cs.register_auto_sync_callback(lambda path: path.rsplit("/", 1)[-1] == ex.pred)
    ex.monitors.append(Invariant())
    ex.intake_broken = []
    if fc or case.get("fault_table") is not None:
        orig_step = w.step

        def step(which):
            seen = list(w.ctl.events_seen)
            nf = len(w.ctl.fired)
            out = orig_step(which)
            if which < 2 and w.ctl.events_seen[which] > seen[which] and any(f[1] == which for f in w.ctl.fired[nf:]):
                # an injected error hit this side's provider during an intake that had already been handed events
                ex.intake_broken.append((w.ctl.step_no, which))
            return out
        w.step = step

    def remote_oid(rel):
        info = w.provs[1].info_path(w.roots[1] + rel)
        return info.oid if info else None

    def x_sync_path(exx, rel):
        if (w.tree(1) or {}).get(rel, ("x",))[0] != "f":
            return False
        exx.calls += 1
        r = _engine_call(exx, lambda: w.cs.smart_sync_path(w.roots[0] + rel, 0))
        exx.allowed_local.add(rel)       # (a failed request may still have fetched the file before it raised)
        if r is not FAILED:
            exx.requested.add(rel)
            exx.excluded.discard(rel)
        return True

    def x_sync_oid(exx, rel):
        if (w.tree(1) or {}).get(rel, ("x",))[0] != "f":
            return False
        oid = remote_oid(rel)
        exx.calls += 1
        r = _engine_call(exx, lambda: w.cs.smart_sync_oid(oid))
        exx.allowed_local.add(rel)       # (a failed request may still have fetched the file before it raised)
        if r is not FAILED:
            exx.requested.add(rel)
            exx.excluded.discard(rel)
        return True

    def x_unsync_path(exx, rel):
        if rel not in exx.requested:
            return False
        exx.calls += 1
        r = _engine_call(exx, lambda: w.cs.smart_unsync_path(w.roots[0] + rel, 0))
        if r and r is not FAILED:       # (a local creation the engine has not uploaded yet is not known remotely: the call does nothing)
            exx.requested.discard(rel)
            exx.local_created.discard(rel)
            exx.allowed_local.discard(rel)
            exx.excluded.add(rel)
        return True

    def x_unsync_oid(exx, rel):
        if rel not in exx.requested:
            return False
        oid = remote_oid(rel)
        if oid is None:
            return False
        exx.calls += 1
        r = _engine_call(exx, lambda: w.cs.smart_unsync_oid(oid))
        if r is not FAILED and (r is not None or (w.tree(0) or {}).get(rel) is None):
            exx.requested.discard(rel)
            exx.local_created.discard(rel)
            exx.allowed_local.discard(rel)
            exx.excluded.add(rel)
        return True

    def x_listdir(exx, rel):
        exx.calls += 1
        _engine_call(exx, lambda: list(w.cs.smart_listdir_path(w.roots[0] + rel)))
        return True
    ex.actions.update({"sync_path": x_sync_path, "sync_oid": x_sync_oid, "unsync_path": x_unsync_path, "unsync_oid": x_unsync_oid, "listdir": x_listdir})
    orig_apply = ex.apply

    def apply(item, record=True):
        ok = orig_apply(item, record)
        if ok and item[0] == "U" and item[1] == 0 and item[2] == "create":
            ex.local_created.add(item[3])
            ex.requested.add(item[3])
            ex.allowed_local.add(item[3])
            ex.excluded.discard(item[3])
        if ok and item[0] == "U" and item[1] == 1 and item[2] == "delete":
            ex.requested.discard(item[3])
            ex.local_created.discard(item[3])
            ex.excluded.discard(item[3])        # an explicit un-request concerns that object; a new file of the same name is new
        return ok
    ex.apply = apply


def _listing(ex, rel):
    w = ex.world
    out = {}
    r = _engine_call(ex, lambda: list(w.cs.smart_listdir_path(w.roots[0] + rel)))
    for si in ([] if r is FAILED else (r or [])):
        out[si.name if getattr(si, "name", None) else si.path.rsplit("/", 1)[-1]] = (si.otype.value, bool(si.is_synced))
    return out


def _verdict(ex, case):
    v = _verdict0(ex, case)
    if isinstance(v, Violation) and getattr(ex, "intake_broken", None):
        v.kw["intake_broken"] = [list(x) for x in ex.intake_broken]
    return v


def _verdict0(ex, case):
    w = ex.world
    ex.probes["app-calls"] = ex.calls
    if ex.nonquiescent:
        return Violation("nonquiescent", "engine still busy after the round budget")
    Invariant()(ex, ["Q"])
    t0, t1 = w.tree(0) or {}, w.tree(1) or {}
    # folders mirrored
    d0 = set(k for k, v in t0.items() if v[0] == "d")
    d1 = set(k for k, v in t1.items() if v[0] == "d")
    if d0 != d1:
        return Violation("folders-not-mirrored", "folders differ at quiet: local-only %s remote-only %s" % (sorted(d0 - d1), sorted(d1 - d0)), paths=sorted(d0 ^ d1))
    conflicted = set(k.replace(".conflicted", "") for t in (t0, t1) for k in t if ".conflicted" in k)
    for rel in sorted(ex.requested | set(k for k in t1 if _pred(ex, k) and k not in ex.excluded)):
        rv = t1.get(rel)
        if rv is None or rv[0] != "f" or rel in conflicted:
            continue
        lv = t0.get(rel)
        if lv != rv:
            return Violation("requested-not-synced", "requested file %s: remote=%s local=%s at quiet" % (rel, rv, lv), paths=[rel])
    for rel in sorted(ex.local_created):
        lv = t0.get(rel)
        if lv is not None and t1.get(rel) != lv:
            return Violation("local-creation-not-uploaded", "locally created %s: local=%s remote=%s at quiet" % (rel, lv, t1.get(rel)), paths=[rel])
    have = set(v[1] for t in (t0, t1) for v in t.values() if v[0] == "f")
    lost = sorted(p for p in ex.written if p not in ex.destroyed and p not in have)
    if lost:
        return Violation("content-lost", "version(s) %s written by a user and destroyed by no user exist on neither side (an un-request must upload newer local bytes first); local=%s remote=%s" % (
            [p.decode() for p in lost], tree_str(t0), tree_str(t1)), lost=[p.decode() for p in lost])
    # merged listing
    for d in [""] + sorted(d0):
        got = _listing(ex, d)
        want = {}
        for t, synced in ((t1, False), (t0, True)):
            for k, v in t.items():
                if k.rsplit("/", 1)[0] == d and ".conflicted" not in k:
                    name = k.rsplit("/", 1)[1]
                    if v[0] == "f":
                        want[name] = ("file", synced)
                    else:
                        want[name] = ("dir", want.get(name, ("dir", synced))[1] or synced)
        gf = {k: v for k, v in got.items() if v[0] == "file" and ".conflicted" not in k}
        wf = {k: v for k, v in want.items() if v[0] == "file"}
        if gf != wf:
            return Violation("listing", "merged listing of %r at quiet reports %s, expected %s (local files synced, remote-only files not synced)" % (d or "/", sorted(gf.items()), sorted(wf.items())))
    if not ex.calls:
        return None, "no-app-call"
    return None


def _gen(rng, ex, case, style):
    w = ex.world
    n = rng.randint(2, 9)
    done = tries = 0
    while done < n and tries < n * 6:
        tries += 1
        r = rng.random()
        t1 = w.tree(1) or {}
        t0 = w.tree(0) or {}
        rfiles = [k for k, v in t1.items() if v[0] == "f"]
        item = None
        if r < 0.35:
            op = propose(rng, t1, {"create": 4, "write": 3, "delete": 1, "mkdir": 2}, ex.new_payload)
            if op:
                item = ["U", 1] + list(op)
        elif r < 0.5:
            lfiles = [k for k, v in t0.items() if v[0] == "f" and ".conflicted" not in k]
            if lfiles and rng.random() < 0.6:
                item = ["U", 0, "write", rng.choice(lfiles), ex.new_payload()]
            else:
                dirs = [""] + [k for k, v in t0.items() if v[0] == "d"]
                name = rng.choice(["la", "lb"])
                d = rng.choice(dirs)
                if d + "/" + name not in t1 and d + "/" + name not in t0:
                    item = ["U", 0, "create", d + "/" + name, ex.new_payload()]
        elif r < 0.75 and rfiles:
            item = ["X", rng.choice(["sync_path", "sync_oid"]), rng.choice(rfiles)]
        elif r < 0.9 and ex.requested:
            item = ["X", rng.choice(["unsync_path", "unsync_oid"]), rng.choice(sorted(ex.requested))]
        else:
            dirs = [""] + [k for k, v in t0.items() if v[0] == "d"]
            item = ["X", "listdir", rng.choice(dirs)]
        if item is None or not ex.apply(item):
            continue
        done += 1
        sched_after_op(rng, ex, style)


def generate(rng, tier, index):
    flav = rng.choice(["oo", "po", "of"])
    style = weighted(rng, (("eager", 3), ("batched", 4), ("split", 3)))
    case = {"prop": ID, "cfg": {"flavour": flav}, "style": style, "family": style, "pred": rng.choice([None, None, "c.txt", "a"])}
    holder = {}
    if index % 5 == 0:
        # a fifth of the runs: the providers raise temporary errors at 2-5 % of the engine's calls until the epilogue (punted first
        # attempts, failed requests); the same oracles apply once the faults have stopped
        case["faults"] = {"kinds": ["temp"], "rate": (0.02, 0.05)[(index // 5) % 2]}
        case["fault_seed"] = index * 7919 + 13
        case["family"] = style + "-faults"

    def body(ex):
        holder["ex"] = ex
        _gen(rng, ex, case, style)
    res = drive_smart(case, body, generating=True)
    if case.get("faults") and holder.get("ex") is not None:
        res["case"]["fault_table"] = {str(k): list(v) for k, v in holder["ex"].world.ctl.faults.items()}
    return res


def drive_smart(case, body, generating=False):
    import props.common as C
    saved = C.Exec
    # the Exec of this property builds a SmartWorld
    from sim.plan import Exec as PlanExec

    class SmartExec(PlanExec):
        def __init__(self, cfg):
            super().__init__(cfg, world_cls=SmartWorld)
    C.Exec = SmartExec
    try:
        return drive(case, body, _verdict, setup=_setup, generating=generating, shape_extra=lambda ex: "|%s" % case.get("pred"))
    finally:
        C.Exec = saved


def replay(case):
    case = dict(case)
    return drive_smart(case, lambda ex: ex.run(case["plan"]))
