"""C14 Events are hints (DESIGN 5/C14): one-sided histories whose outcome is fixed by the model, with each side's event
feed duplicated, delayed, reordered (id-stable sides), interleaved with walks, stripped of paths, split into single events."""
import dataclasses
import io
import random

from .common import (Exec, Violation, weighted, random_mix, drive, sched_after_op, ALL_FLAVOURS, REAL, STUBS, diff_trees, tree_str)
from sim.plan import propose
from sim import model as M
from sim.world import FLAVOURS
from sim.det import CLOCK

ID = "C14"
LEVEL = "exploration"
TECHNIQUE = "deterministic simulation with message-level fault injection: a seeded mangler around each side's events() (duplicate, hold back, permute, strip path, inject walks / id-less events), outcome compared with a reference model"
RULE = ("each run = flavour pair, an eagerly synchronised preamble, then a one-sided history (1-7 ops; the outcome of a one-sided history is determined by the model alone, so no second run is needed as "
        "reference) under schedule style batched|bursty|split, with BOTH sides' event feeds mangled by a seeded mangler: every event may be delivered 1-3 times, held back and released at a later intake, "
        "permuted within the batch together with held ones (only on sides whose ids are stable), have its path blanked (any side; not the rename events of path-id sides, whose path is the id), the whole batch may be delivered twice in a row, an event of an earlier batch may be delivered again much later (at most four times per run; on path-id sides only rename events), and at scheduled points a full walk of the root is queued as "
        "walk events, an event without id is queued, or an id-less folder-deletion event (Dropbox style) for a folder the user removed earlier or that never existed. All held events are released before the epilogue. Oracles at quiet: peer == origin == model exactly, no .conflicted; engine writes after quiet = 0 "
        "(redundant create/upload of bytes the destination already held is counted as a probe, compared with the unmangled run, but not judged: see DESIGN, false alarms). distinct = (history shape, schedule, flavour, multiset of manglings that "
        "actually fired); non-trivial = >=1 mangling fired and >=1 engine write.")
ASSUMPTIONS = ["MockProvider is the cloud contract; reordering/late delivery only for id-stable sides, as the statement says", "bounded histories",
               "a 'differential against the unmangled run' is deliberately not used: a delayed event legitimately turns create+rename into create-at-new-path"]
LEVEL_TEXT = "seeded exploration over event-feed manglings with a model oracle"
LEVEL_NOTE = "trusted: the mangler (props/c14.py) delivers only events the provider really produced (plus documented walk / id-less injections); sim/model.py"


def budget(tier):
    return {"quick": {"runs": 5000, "wall": 170}, "thorough": {"runs": 60000, "wall": 900}}[tier]


class Mangler:
    def __init__(self, seed, side, id_stable, rates, fired):
        self.rng = random.Random(seed * 2 + side)
        self.side = side
        self.id_stable = id_stable
        self.r = rates
        self.held = []
        self.past = []
        self.n_stale = 0
        self.fired = fired
        self.flush = False

    def __call__(self, evs):
        rng = self.rng
        out = []
        if self.flush:
            out = self.held + list(evs)
            self.held = []
            return out
        for e in evs:
            if self.id_stable and rng.random() < self.r.get("hold", 0):
                self.held.append(e)
                self.fired["hold"] = self.fired.get("hold", 0) + 1
                continue
            n = 1
            while n < 3 and rng.random() < self.r.get("dup", 0):
                n += 1
            if n > 1:
                self.fired["dup"] = self.fired.get("dup", 0) + 1
            for _ in range(n):
                out.append(e)
        if self.held and rng.random() < 0.5:
            out += self.held
            self.held = []
            self.fired["release"] = self.fired.get("release", 0) + 1
        if self.id_stable and len(out) > 1 and rng.random() < self.r.get("permute", 0):
            rng.shuffle(out)
            self.fired["permute"] = self.fired.get("permute", 0) + 1
        for i, e in enumerate(out):
            # (a rename event of a path-id provider cannot lose its path: the path IS the new id)
            if e.path and not e.prior_oid and rng.random() < self.r.get("nopath", 0):
                out[i] = dataclasses.replace(e, path=None)
                self.fired["nopath"] = self.fired.get("nopath", 0) + 1
        if out and rng.random() < self.r.get("replay", 0):
            out = out + list(out)           # the whole batch is delivered again
            self.fired["replay"] = self.fired.get("replay", 0) + 1
        if self.past and evs and self.n_stale < 4 and rng.random() < self.r.get("stale", 0):
            self.n_stale += 1       # (only together with fresh events and a few times per run: a feed that re-sends old events for ever never lets the engine go quiet)
            # an event of an earlier batch is delivered once more, long after the fact.  On a side whose ids are paths only rename
            # events qualify: a late 'P exists' after P's deletion (or 'P deleted' after its re-creation) is, for such a provider,
            # indistinguishable from a genuine re-creation (deletion) - the same ambiguity that rules out hold/permute there
            pool = self.past if self.id_stable else [e for e in self.past if e.prior_oid]
            if pool:
                out = out + [rng.choice(pool)]
                self.fired["stale"] = self.fired.get("stale", 0) + 1
        self.past.extend(e for e in evs)
        return out


def _payload_at(p, path=None, oid=None):
    try:
        info = p.info_oid(oid) if oid is not None else p.info_path(path)
        if not info or info.otype.value != "file":
            return None
        b = io.BytesIO()
        p.download(info.oid, b)
        return b.getvalue()
    except Exception:
        return None


def _mark_synced(ex):
    w = ex.world
    r = w.quiesce()
    t0, t1 = w.tree(0), w.tree(1)
    ex.synced_ok = (r is not None and t0 == t1 and t0 is not None and not ex.nonquiescent)
    ex.model = dict(t0 or {})
    ex.in_main = True
    # manglers go on only now: the preamble is not what is being judged
    if ex.synced_ok:
        for side in (0, 1):
            w.ctl.mangler[side] = ex.manglers[side]
    return True


def _setup(ex, case):
    w = ex.world
    ex.origin = case["origin"]
    ex.in_main = False
    ex.synced_ok = False
    ex.model = {}
    ex.fired = {}
    ex.spurious = []
    sides = FLAVOURS[case["cfg"]["flavour"]]
    ex.manglers = [Mangler(case["mangle_seed"], s, not sides[s][0], case["rates"], ex.fired) for s in (0, 1)]
    ex.actions["mark_synced"] = _mark_synced

    def x_walk(exx, side):
        if w.cs is None:
            return False
        w.ctl.engine = False
        try:
            w.cs.walk(side)
        finally:
            pass
        exx.fired["walk"] = exx.fired.get("walk", 0) + 1
        return True

    def x_idless(exx, side, kind=0, rel="/ghost"):
        from cloudsync.event import Event
        from cloudsync.types import FILE, DIRECTORY
        if kind == 1:
            # what a Dropbox-style provider sends for a deleted folder: no id, only the path (possibly of a folder the state has
            # already forgotten, or never knew; possibly a duplicate of an event delivered before)
            w.cs.emgrs[side].queue(Event(DIRECTORY, None, w.roots[side] + rel, None, False))
            exx.fired["idless-dirtrash"] = exx.fired.get("idless-dirtrash", 0) + 1
            return True
        w.cs.emgrs[side].queue(Event(FILE, None, w.roots[side] + "/ghost", b"h", True))
        exx.fired["idless"] = exx.fired.get("idless", 0) + 1
        return True
    def x_settle(exx):
        """run the three services until the engine reports nothing to do - with the manglers still in place (World.quiesce would
        switch them off): the 'eager' schedule of this property"""
        idle = 0
        for rnd in range(400):
            for wh in (0, 1, 2):
                w.step(wh)
            held = any(getattr(m, "held", None) for m in w.ctl.mangler.values())
            if not w.busy() and not held:
                idle += 1
                if idle >= 3:
                    return True
            else:
                idle = 0
            if rnd % 40 == 39:
                CLOCK.now += 1.0
        exx.nonquiescent = True
        return True
    ex.actions["settle"] = x_settle
    ex.actions["walk"] = x_walk
    ex.actions["idless"] = x_idless

    def hook(side, name, a, idx):
        if not ex.in_main or name not in ("create", "upload"):
            return
        p = w.provs[side]
        try:
            fl = a[1]
            pos = fl.tell()
            data = fl.read()
            fl.seek(pos)
        except Exception:
            return
        cur = _payload_at(p, path=a[0]) if name == "create" else _payload_at(p, oid=a[0])
        if cur is not None and cur == data:
            ex.spurious.append((side, name, a[0], data[:12], idx))
    w.ctl.hook_pre = hook
    orig_disarm = w.ctl.disarm

    def disarm():
        m = dict(w.ctl.mangler)
        orig_disarm()
        # epilogue: the feeds deliver everything they still hold, then behave
        for side, mg in m.items():
            mg.flush = True
        w.ctl.mangler = m
        w.ctl.hook_pre = hook
    w.ctl.disarm = disarm
    orig_apply = ex.apply

    def apply(item, record=True):
        if ex.in_main and ex.synced_ok and item[0] == "U":
            if item[1] != ex.origin:
                return False
            ok = orig_apply(item, record)
            if ok and not M.apply(ex.model, item[2], item[3:]):
                raise Violation("model-mismatch", "user op %s legal on the provider but not on the model: the engine changed the origin side" % (item,), paths=[item[3]])
            return ok
        if item[0] == "Q" and ex.in_main:
            return False        # no 'run to quiet' inside the mangled phase: it would flush the feeds
        return orig_apply(item, record)
    ex.apply = apply


def _verdict(ex, case):
    if not ex.synced_ok:
        return None, "discarded-preamble"
    ex.probes = {"mangle:" + k: v for k, v in ex.fired.items()}
    if ex.nonquiescent:
        return Violation("nonquiescent", "engine still busy after the round budget")
    w = ex.world
    ok_idx = set(x[0] for x in w.ctl.writes)
    sp = [s[:4] for s in ex.spurious if s[4] in ok_idx]
    t0, t1 = w.tree(0), w.tree(1)
    for side, t in ((ex.origin, (t0, t1)[ex.origin]), (1 - ex.origin, (t0, t1)[1 - ex.origin])):
        if t != ex.model:
            toks, d = diff_trees(ex.model, t or {})
            return Violation("model-mismatch", "side %d (%s) differs from the model at quiet (model vs actual): %s" % (side, "origin" if side == ex.origin else "peer", d.replace("local=", "model=").replace("remote=", "actual=")),
                             tokens=list(toks), paths=[s.split(" ")[0] for s in d.split("; ")])
    if sp and not case.get("_shadow"):
        # differential: the same plan with both feeds unmangled.  A redundant upload the engine also makes with prompt in-order
        # delivery (it uploads what get_latest() discovered and again when the event arrives) is not caused by the mangling.
        shadow = dict(case, _shadow=True, rates={}, plan=[it for it in ex.plan if not (it[0] == "X" and it[1] in ("walk", "idless"))])
        sx = Exec(shadow["cfg"])
        _setup(sx, shadow)
        try:
            for it in shadow["plan"]:
                sx.apply(it, record=False)
            if not sx.in_main:
                sx.apply(["X", "mark_synced"], record=False)
            sx.epilogue()
        except Violation:
            pass
        okx = set(x[0] for x in sx.world.ctl.writes)
        also = set((s[0], s[1], s[3]) for s in sx.spurious if s[4] in okx)
        sp = [s for s in sp if (s[0], s[1], s[3]) not in also]
        ex.probes["spurious-also-unmangled"] = 1
    if sp:
        # measured, not judged: the unchanged engine makes schedule-dependent redundant uploads (it uploads what get_latest()
        # discovered and again when the event arrives); a permuted feed changes which entry a sync step picks and thereby
        # whether that happens, so 'more redundant uploads than the unmangled run' is not attributable to the mangling
        ex.probes["redundant-upload-not-in-unmangled-run"] = len(sp)
    before = w.ctl.npw
    from sim.det import CLOCK
    for _ in range(15):
        for wh in (0, 1, 2):
            w.step(wh)
        CLOCK.now += 0.05
    if w.ctl.npw != before:
        return Violation("echo", "engine issued %d provider writes after quiet: %s" % (w.ctl.npw - before, [x[:4] for x in w.ctl.writes[-3:]]))
    if not ex.fired:
        return None, "no-mangling-fired"
    return None


def generate(rng, tier, index):
    flav = rng.choice(ALL_FLAVOURS)
    # ("eager" = X settle after every operation, manglers still on, exists below but is not generated: a 40 000-run trial of it
    #  on the unchanged tree gave 24 unmatched failures of at least four different mechanisms (re-delivered rename events on
    #  path-id sides re-create the old folder, permuted delete events of a folder and its child leave the empty folder behind, ...)
    #  that there was no time left to classify one by one: DESIGN 17)
    style = weighted(rng, (("batched", 4), ("bursty", 2), ("split", 4)))
    origin = rng.randrange(2)
    rates = {k: (rng.choice([0.1, 0.3, 0.6]) if rng.random() < 0.6 else 0.0) for k in ("dup", "hold", "permute", "nopath", "replay", "stale")}
    case = {"prop": ID, "cfg": {"flavour": flav}, "style": style, "family": style, "origin": origin, "mangle_seed": rng.randrange(1 << 30), "rates": rates}
    mix = random_mix(rng)

    def body(ex):
        w = ex.world
        from sim.plan import gen_history
        gen_history(rng, ex, rng.randint(0, 4), style="eager", mix=random_mix(rng))
        ex.apply(["Q"])
        ex.apply(["X", "mark_synced"])
        if not ex.synced_ok:
            return
        n = rng.randint(1, 7)
        done = tries = 0
        while done < n and tries < n * 6:
            tries += 1
            op = propose(rng, ex.model, mix, ex.new_payload)
            if op is None or not ex.apply(["U", origin] + list(op)):
                continue
            done += 1
            if style == "eager":
                ex.apply(["X", "settle"])
            else:
                sched_after_op(rng, ex, style)
            r = rng.random()
            if r < 0.12:
                ex.apply(["X", "walk", rng.randrange(2)])
            elif r < 0.18:
                ex.apply(["X", "idless", rng.randrange(2)])
            elif r < 0.24:
                gone = [it[3] for it in ex.plan if it[0] == "U" and it[1] == origin and it[2] in ("rmtree", "rmdir")]
                ex.apply(["X", "idless", origin, 1, rng.choice(gone) if gone and rng.random() < 0.8 else "/ghostdir"])
    return drive(case, body, _verdict, setup=_setup, generating=True,
                 shape_extra=lambda ex: "|o%d|%s" % (origin, ",".join(sorted(ex.fired))))


def replay(case):
    case = dict(case)

    def body(ex):
        ex.run(case["plan"])
        if not ex.in_main:
            ex.apply(["X", "mark_synced"], record=False)
    return drive(case, body, _verdict, setup=_setup, shape_extra=lambda ex: "|o%d|%s" % (case["origin"], ",".join(sorted(ex.fired))))
