"""C17 Scheduling laws (DESIGN 5/C17): ageing, priorities, order of eligible entries, no starvation - under a virtual clock."""
from .common import (Exec, Violation, weighted, random_mix, drive, ALL_FLAVOURS, REAL, STUBS, diff_trees, strip_conflicted)
from sim.plan import propose
from sim.det import CLOCK

ID = "C17"
LEVEL = "exploration"
TECHNIQUE = "deterministic simulation under a virtual clock: seeded change timing relative to engine steps; every pick of the scheduler and every propagating sync call observed at the seam"
RULE = ("each run = flavour pair, ageing in {0, default 0.002, 0.5, 5 s}, a prioritise function mapping file/folder names to {-1, 0, 1, 2} (or none), history of 1-7 user ops with explicit clock "
        "advances so that changes land before / at / after the ageing boundary, repeated changes to the same object, schedule style batched|bursty|split; family 'lock' adds an object that fails "
        "permanently (the mock's per-path lock = a cloud error, or in a third of these runs an OSError from the provider call = a non-cloud failure). Observed (all times virtual): the time the engine is notified of each change (wrapper around event application, per entry and side), every pick of SyncState.change(), and every "
        "embrace_change() call that issues a provider write. Laws checked: (1) a change of side s of an entry is never propagated earlier than ageing after the engine's last notification for that "
        "entry and side, unless the entry's priority is negative; (2) the entry picked is minimal by (priority, change time) among the entries eligible at that instant, and with ageing 0 a pick is "
        "never refused while a stamped entry is pending; (3) while one object keeps failing all others still synchronise, and the failing one is re-attempted within a bounded virtual delay; "
        "(4) a pending entry whose path the application's prioritise function maps to a negative value and which the engine has never deferred (punt() adds 1) never shows priority 0 (judged in one-sided histories) - the 'immediately' mark is the application's and must not be dropped. "
        "distinct = (history shape, schedule, flavour, ageing, priority map); non-trivial = >=1 propagating call observed and >=1 clock advance or ageing > default.")
ASSUMPTIONS = ["the virtual clock is the only clock the engine reads (sim/det.py)", "notification time = the instant EventManager._process_event applied an event to that entry (not the user's operation time)",
               "order law uses the engine's own stamp per entry (max of both sides), as the statement's 'older changes first' is defined on what the engine was told"]
LEVEL_TEXT = "seeded exploration of timing x ageing x priorities with per-call oracles"
LEVEL_NOTE = "trusted: method wrappers on the live SyncManager/EventManager/SyncState instances (installed per engine instance, no source change)"

AGINGS = (0, None, 0.5, 5.0)
PRIOS = (None, {"a": -1}, {"b": 1, "d1": 2}, {"a": -1, "c.txt": 1}, {"d1": -1, "d2": 1, "b": 2})


def budget(tier):
    return {"quick": {"runs": 4000, "wall": 170}, "thorough": {"runs": 48000, "wall": 900}}[tier]


_PUNT_SINK = [None]


def _patch_punt():
    from sim.det import statemod
    if getattr(statemod.SyncEntry.punt, "_c17", False):
        return
    orig = statemod.SyncEntry.punt

    def punt(self):
        if _PUNT_SINK[0] is not None:
            _PUNT_SINK[0].add(self._vserial)
        return orig(self)
    punt._c17 = True
    statemod.SyncEntry.punt = punt


def _install(ex, case):
    _patch_punt()
    w = ex.world
    cs = w.cs
    st = cs.state
    smgr = cs.smgr
    ex.notified = {}        # (entry serial, side) -> virtual time of the last event applied
    ex.early = []
    ex.order_bad = []
    ex.mark_lost = getattr(ex, "mark_lost", [])
    ex.punted = getattr(ex, "punted", set())       # entries the engine has deferred at least once (punt() adds 1: -1 becomes 0)
    _PUNT_SINK[0] = ex.punted
    ex.refused = []
    ex.attempts = {}        # entry serial -> [times of embrace calls]
    ex.propagations = 0
    for side in (0, 1):
        em = cs.emgrs[side]
        orig = em._process_event

        def pe(event, from_walk=False, _orig=orig, _side=side):
            r = _orig(event, from_walk=from_walk)
            oid = getattr(event, "oid", None)
            if oid is not None:
                ent = st.lookup_oid(_side, oid)
                if ent is not None:
                    ex.notified[(ent._vserial, _side)] = CLOCK.now
            return r
        object.__setattr__(em, "_process_event", pe)
    orig_change = st.change

    def change(age):
        now = CLOCK.now
        cand = []
        for e in st._changeset:
            stamp = max(e[0].changed or 0, e[1].changed or 0)
            elig = (e[0].changed and e[0].changed <= now - age) or (e[1].changed and e[1].changed <= now - age) or e.priority < 0
            cand.append((e, stamp, bool(elig)))
        r = orig_change(age)
        # (priorities/paths may have been refreshed inside change(); recompute keys afterwards for the order law)
        if r is not None:
            key = (r.priority, max(r[0].changed or 0, r[1].changed or 0))
            for e, stamp, elig in cand:
                if e is r or e not in st._changeset:
                    continue
                now2 = CLOCK.now
                el = (e[0].changed and e[0].changed <= now2 - age) or (e[1].changed and e[1].changed <= now2 - age) or e.priority < 0
                k2 = (e.priority, max(e[0].changed or 0, e[1].changed or 0))
                if el and k2 < key:
                    ex.order_bad.append((round(now2, 4), "picked %s key=%s while eligible %s key=%s" % (r[0].path or r[1].path, key, e[0].path or e[1].path, k2)))
        # law (4): 'immediately' is the application's word - an entry whose path the application's prioritise function maps to a
        # negative value must carry a negative priority whenever it is pending, unless the engine has deferred it after a failed
        # attempt (priority > 0).  Priority 0 on such an entry means the mark was lost and the entry now waits out the ageing interval.
        pm = case.get("prio")
        # (judged in one-sided histories only: when both users touch one object the engine splits and merges entries, and which
        #  path the surviving entry took its priority from is not observable from outside - thorough soak, seed 5)
        if pm and len(set(it[1] for it in ex.plan if it[0] == "U")) <= 1:
            for e in st._changeset:
                # (an entry has one priority, taken from the side whose path changed last: judge only entries all of whose known
                #  paths the application maps to 'immediately')
                pths = [(sd, e[sd].path) for sd in (0, 1) if e[sd].path]
                if pths and e.priority == 0 and e._vserial not in ex.punted and (e[0].changed or e[1].changed) \
                        and all(pm.get(pth.rsplit("/", 1)[-1], 0) < 0 for sd, pth in pths):
                    ex.mark_lost.append((round(CLOCK.now, 4), pths[0][1], pths[0][0]))
        if r is not None:
            ex.last_pick = (r._vserial, (r[0].changed, r[1].changed), r.priority, CLOCK.now)
        else:
            # nothing picked: then nothing may be eligible (an eligible entry hidden behind a younger one of better priority starves)
            now2 = CLOCK.now
            for e in st._changeset:
                if (e[0].changed and e[0].changed <= now2 - age) or (e[1].changed and e[1].changed <= now2 - age) or e.priority < 0:
                    ex.order_bad.append((round(now2, 4), "nothing picked although %s is eligible (priority %s, stamps %s/%s, ageing %s)" % (e[0].path or e[1].path, e.priority, e[0].changed, e[1].changed, age)))
                    break
        if r is None and age == 0:
            late = [e for e, stamp, elig in cand if e in st._changeset and stamp and stamp <= CLOCK.now]
            if late:
                ex.refused.append((round(CLOCK.now, 4), [x[0].path or x[1].path for x in late][:3]))
        return r
    st.change = change
    orig_embrace = smgr.embrace_change

    def embrace(sync, changed, synced):
        t = CLOCK.now
        before = w.ctl.npw
        stamps = (sync[0].changed, sync[1].changed)
        prio = sync.priority
        ser = sync._vserial
        lp = getattr(ex, "last_pick", None)
        if lp and lp[0] == ser:
            stamps, prio = lp[1], lp[2]       # what the scheduler saw when it picked the entry (sync() clears stamps of sides that need nothing)
        ex.attempts.setdefault(ser, []).append(t)
        try:
            return orig_embrace(sync, changed, synced)
        finally:
            if w.ctl.npw > before:
                ex.propagations += 1
                last = ex.notified.get((ser, changed))
                age = smgr.aging
                if last is not None and prio >= 0 and t + 1e-9 < last + age:
                    own = stamps[changed]
                    other = stamps[synced]
                    if own == 1 or (own and own < last - 1e-9 and own <= 1.5):
                        mech = "set-aged"
                    elif other and other <= t - age and not (own and own <= t - age):
                        mech = "peer-stamp"
                    else:
                        mech = "own-stamp"
                    ex.early.append({"t": round(t, 4), "notified": round(last, 4), "ageing": age, "side": changed, "path": sync[changed].path, "stamps": [stamps[0], stamps[1]],
                                     "prio": prio, "mech": mech, "writes": [x[2] for x in w.ctl.writes[before:]]})
    object.__setattr__(smgr, "embrace_change", embrace)


def _setup(ex, case):
    w = ex.world
    pm = case.get("prio")
    if pm:
        def prioritize(side, path):
            name = path.rsplit("/", 1)[-1] if path else ""
            return pm.get(name, 0)
        w.prioritize = prioritize
    ex.locked = ({}, {})
    _install(ex, case)
    w.on_boot = lambda world: _install(ex, case)

    def x_lock(exx, side, rel, kind="cloud"):
        if kind == "os":
            # the provider fails with a non-cloud exception (OSError): the engine's catch-all must defer the entry all the same
            w.ctl.hard_fail.setdefault(side, set()).add(w.roots[side] + rel)
        else:
            w.provs[side]._locked_for_test.add(w.roots[side] + rel)
        exx.locked[side][rel] = True
        return True

    def x_unlock(exx, side, rel):
        w.provs[side]._locked_for_test.discard(w.roots[side] + rel)
        w.ctl.hard_fail.get(side, set()).discard(w.roots[side] + rel)
        exx.locked[side].pop(rel, None)
        return True

    def x_starve_check(exx, rounds):
        t0 = CLOCK.now
        for _ in range(rounds):
            for wh in (0, 1, 2):
                w.step(wh)
            CLOCK.now += 0.05
        bad = set(exx.locked[0]) | set(exx.locked[1])

        def keep(t):
            return {k: v for k, v in strip_conflicted(t or {}).items() if not any(k == b or k.startswith(b + "/") for b in bad)}
        a, b = keep(w.tree(0)), keep(w.tree(1))
        if a != b:
            toks, d = diff_trees(a, b)
            raise Violation("starved", "while %s keeps failing, other objects were not synchronised within %d rounds (%.1f virtual s): %s" % (sorted(bad), rounds, CLOCK.now - t0, d),
                            paths=[s.split(" ")[0] for s in d.split("; ")])
        # the failing entry keeps being re-attempted: largest gap between consecutive attempts is bounded
        st = w.cs.state
        for e in st._changeset:
            ts = [t for t in exx.attempts.get(e._vserial, []) if t >= t0]
            if e[0].path and any(e[0].path.endswith(bb) for bb in bad) or e[1].path and any(e[1].path.endswith(bb) for bb in bad):
                gaps = [y - x for x, y in zip([t0] + ts, ts + [CLOCK.now])]
                if not ts or max(gaps) > 120.0:
                    raise Violation("not-retried", "the failing entry %s was re-attempted %d times in %.1f virtual s, largest gap %.1f s" % (e[0].path or e[1].path, len(ts), CLOCK.now - t0, max(gaps) if gaps else -1))
        exx.probes = dict(getattr(exx, "probes", {}) or {})
        exx.probes["starvation-checks"] = exx.probes.get("starvation-checks", 0) + 1
        return True
    ex.actions.update({"lock": x_lock, "unlock": x_unlock, "starve_check": x_starve_check})
    orig_apply = ex.apply

    def apply(item, record=True):
        if item[0] == "Q" and (ex.locked[0] or ex.locked[1]):
            return False
        if item[0] == "U":
            side = item[1]
            paths = [x for x in item[3:] if isinstance(x, str) and x.startswith("/")]
            for lk in ex.locked[side]:
                if any(p == lk or p.startswith(lk + "/") or lk.startswith(p + "/") for p in paths):
                    return False
        return orig_apply(item, record)
    ex.apply = apply
    orig_epilogue = ex.epilogue

    def epilogue(cap=600):
        for side in (0, 1):
            for rel in list(ex.locked[side]):
                x_unlock(ex, side, rel)
        return orig_epilogue(cap)
    ex.epilogue = epilogue


def _verdict(ex, case):
    ex.probes = dict(getattr(ex, "probes", {}) or {})
    ex.probes["propagations-observed"] = ex.propagations
    if ex.early:
        # report a violation whose mechanism is not the recorded one first
        e = sorted(ex.early, key=lambda x: (x["mech"] in ("peer-stamp", "set-aged"), x["t"]))[0]
        return Violation("synced-before-aged", "change of side %d of %s propagated at t=%s, only %.4f s after the engine was notified (t=%s), ageing %s, priority %s, stamps %s, writes %s [%s]" % (
            e["side"], e["path"], e["t"], e["t"] - e["notified"], e["notified"], e["ageing"], e["prio"], e["stamps"], e["writes"], e["mech"]), mech=e["mech"])
    if ex.order_bad:
        return Violation("order", "scheduler order law broken %d time(s); first: %s" % (len(ex.order_bad), ex.order_bad[0]))
    if ex.mark_lost:
        return Violation("immediate-mark-lost", "the application's prioritise function maps %s to a negative priority ('immediately'), the entry was never deferred, yet at t=%s it is pending with priority 0 (side %d): it now waits out the ageing interval" % (
            ex.mark_lost[0][1], ex.mark_lost[0][0], ex.mark_lost[0][2]))
    if ex.refused:
        return Violation("ageing-zero-refused", "with ageing 0 the scheduler refused to pick although stamped entries were pending: %s" % (ex.refused[0],))
    if not ex.propagations:
        return None, "no-propagation"
    return None


def generate(rng, tier, index):
    flav = rng.choice(ALL_FLAVOURS)
    style = weighted(rng, (("batched", 4), ("bursty", 2), ("split", 3)))
    aging = rng.choice(AGINGS)
    prio = rng.choice(PRIOS)
    family = weighted(rng, (("timing", 8), ("lock", 2)))
    cfg = {"flavour": flav}
    if aging is not None:
        cfg["aging"] = aging
    case = {"prop": ID, "cfg": cfg, "style": style, "family": family, "prio": prio}
    mix = random_mix(rng)
    for k in ("rename_dir", "rmtree", "rmdir"):
        mix[k] = 0          # folder renames/deletes add nothing to the scheduling laws and bring the rename-race finding along
    if not any(mix.values()):
        mix["create"] = 3
    age_v = 0.002 if aging is None else aging

    def steps(ex):
        for _ in range(rng.randrange(0, 4)):
            wh = rng.randrange(3)
            if style == "split" and wh < 2 and rng.random() < 0.5:
                ex.apply(["E", wh, rng.randrange(1, 3)])
            ex.apply(["S", wh])
            if rng.random() < 0.4:
                ex.apply(["T", rng.choice([age_v * 0.3, age_v * 0.9, age_v, age_v * 1.1, 0.0005, 0.01])])

    def body(ex):
        w = ex.world
        if family == "lock":
            side = rng.randrange(2)
            made = []
            for _ in range(rng.randint(2, 5)):
                op = propose(rng, w.tree(side), {"create": 4, "mkdir": 1}, ex.new_payload)
                if op and ex.apply(["U", side] + list(op)):
                    made.append(op[1])
            files = [m for m in made if (w.tree(side) or {}).get(m, ("x",))[0] == "f"]
            if not files:
                return
            victim = rng.choice(files)
            ex.apply(["X", "lock", 1 - side, victim] + (["os"] if index % 3 == 0 else []))
            ex.apply(["X", "starve_check", rng.choice([60, 120])])
            ex.apply(["X", "unlock", 1 - side, victim])
            return
        n = rng.randint(1, 7)
        done = tries = 0
        while done < n and tries < n * 6:
            tries += 1
            side = rng.randrange(2)
            op = propose(rng, w.tree(side), mix, ex.new_payload)
            if op is None or not ex.apply(["U", side] + list(op)):
                continue
            done += 1
            if style != "bursty":
                steps(ex)
    return drive(case, body, _verdict, setup=_setup, generating=True, shape_extra=lambda ex: "|%s|%s" % (aging, sorted(prio.items()) if prio else None))


def replay(case):
    case = dict(case)
    return drive(case, lambda ex: ex.run(case["plan"]), _verdict, setup=_setup,
                 shape_extra=lambda ex: "|%s|%s" % (case["cfg"].get("aging"), sorted(case["prio"].items()) if case.get("prio") else None))
