"""C06 Restart resumes from persisted state; offline changes are synchronised (DESIGN 5/C06)."""
import io

from .common import (Exec, Violation, weighted, random_mix, drive, sched_after_op, convergence_violation, loss_violation,
                     ALL_FLAVOURS, REAL, STUBS, diff_trees, tree_str, strip_conflicted, case_reconcile)
from sim.plan import propose

ID = "C06"
LEVEL = "exploration"
TECHNIQUE = "deterministic simulation: stop/restart as a scheduled operation over durable state only (storage dict + the two accounts), offline user operations, cursor-safety invariant at every step boundary"
RULE = ("each run = flavour pair (incl. case-insensitive and mixed-case pairs, where the op mix adds case-only renames), restart model (every other run: a fresh process - new engine, provider objects without root or session state; the others: the application rebuilds the engine inside one process around the same provider objects, which still know their root, so that the new event managers read storage in their constructor - a constructor that raises is a violation), history of 1-7 user ops (one- or two-sided) in which the scheduler inserts 1-2 stop/restart pairs at arbitrary step boundaries (also mid-sync with pending entries); "
        "0-3 user ops happen while the engine is down; restart variant intact | cursor rows removed | cursor rejected by the provider | walk marker removed. A restart builds a new CloudSync over the same "
        "storage dict and the same two MockProvider accounts (event cursor of the provider object reset as a fresh connection would find it, process-global provider guard cleared). Oracles: convergence "
        "and no-loss at quiet (one-sided leftovers tolerated only in the cursor-removed / cursor-rejected variants and only at paths a user deleted or renamed away: a walk cannot report deletions, and the statement promises only creations and modifications there); one-sided histories mirror exactly without .conflicted; a restart at a quiet point with nothing changed offline issues zero provider writes; at every step boundary the stored "
        "cursor never passes an event that was handed to the engine but whose processing did not complete. distinct = (history shape incl. restart positions/variants, schedule, flavour); "
        "non-trivial = >=1 restart performed, >=1 engine write and >=1 interleaved step.")
ASSUMPTIONS = ["MockProvider is the cloud contract; its event list is the provider's change feed and survives the engine", "graceful stop at step boundaries (process death at arbitrary writes is C07)",
               "SimStorage dict = the durable storage"]
LEVEL_TEXT = "seeded exploration over restart placement x variant x offline operations, with a per-boundary cursor invariant and outcome oracles at quiet"
LEVEL_NOTE = "trusted: World.down/up emulation of process exit (sim/world.py), MockProvider cursor semantics"

VARIANTS = (("intact", 5), ("nocursor", 2), ("badcursor", 2), ("nowalk", 1))


def budget(tier):
    return {"quick": {"runs": 5000, "wall": 170}, "thorough": {"runs": 60000, "wall": 900}}[tier]


class CursorMonitor:
    """stored cursor of a side <= every event index handed to the engine whose processing has not completed"""
    def __init__(self, ex):
        self.ex = ex
        self.handed = ([], [])       # cursors of events yielded to the engine, per side
        self.done = (set(), set())
        self.wrapped = {}
        self.wrap()

    def wrap(self):
        w = self.ex.world
        if w.cs is None:
            return
        for side in (0, 1):
            em = w.cs.emgrs[side]
            if id(em) in self.wrapped:
                continue
            orig = em._process_event

            def pe(event, from_walk=False, _orig=orig, _side=side):
                cur = getattr(event, "new_cursor", None)
                if not from_walk and cur is not None:
                    self.handed[_side].append(cur)
                r = _orig(event, from_walk=from_walk)
                if not from_walk and cur is not None:
                    self.done[_side].add(cur)
                return r
            object.__setattr__(em, "_process_event", pe)
            self.wrapped[id(em)] = em

    def __call__(self, ex, item):
        w = ex.world
        if w.cs is None:
            return
        self.wrap()
        for side in (0, 1):
            em = w.cs.emgrs[side]
            tag = em._cursor_tag
            rows = w.sd.get(tag, {}) if tag else {}
            for v in rows.values():
                if not isinstance(v, int):
                    continue
                bad = [c for c in self.handed[side] if c <= v and c not in self.done[side]]
                if bad:
                    raise Violation("cursor-skips-event", "after %s: stored cursor %r of side %d has passed event(s) %s whose processing never completed; exceptions that escaped a step: %s" % (
                        item, v, side, bad[:3], w.unhandled[-3:]), unhandled=["%s:%s@%s" % (u[1], u[2], u[3]) for u in w.unhandled])


def _payload_at(p, root_rel_path=None, oid=None):
    try:
        info = p.info_oid(oid) if oid is not None else p.info_path(root_rel_path)
        if not info or info.otype.value != "file":
            return None
        b = io.BytesIO()
        p.download(info.oid, b)
        return b.getvalue()
    except Exception:
        return None


def _setup(ex, case):
    ex.cmon = CursorMonitor(ex)
    ex.monitors.append(ex.cmon)
    ex.restarts = 0
    ex.retransfers = []
    ex.lost_cursor = False
    ex.synced_at_down = set()
    ex.user_removed = set()
    ex.quiet_restart_writes = None
    ex.offline_ops = 0
    w = ex.world

    def on_boot(world):
        ex.cmon.wrap()
    w.on_boot = on_boot
    orig_up = w.up

    def up(variant="intact"):
        from sim.world import SimCrash, HarnessError
        if w.cs is None:
            # (also for the implicit restart of the epilogue when the plan ends with the engine down)
            ncur = sum(1 for t, rows in w.sd.items() if "_cursor_" in t and rows)
            if ncur < 2 or variant in ("badcursor", "nocursor"):
                ex.lost_cursor = True       # a side starts without a usable stored cursor: walk fallback applies
        try:
            return orig_up(variant)
        except (SimCrash, HarnessError):
            raise
        except Exception as e:      # noqa: the constructor of the new engine raised over the persisted state
            raise Violation("restart-failed", "a new engine over the persisted state did not come up (restart variant %s): %s: %s" % (variant, type(e).__name__, e))
    w.up = up

    def hook(side, name, a, idx):
        if not ex.restarts or name not in ("create", "upload"):
            return
        p = w.provs[side]
        try:
            fl = a[1]
            pos = fl.tell()
            data = fl.read()
            fl.seek(pos)
        except Exception:
            return
        cur = _payload_at(p, root_rel_path=a[0]) if name == "create" else _payload_at(p, oid=a[0])
        if cur is not None and cur == data and data in ex.synced_at_down:
            ex.retransfers.append((side, name, a[0], data[:12], idx))
    w.ctl.hook_pre = hook
    orig_disarm = w.ctl.disarm

    def disarm():
        orig_disarm()
        w.ctl.hook_pre = hook           # the re-transfer observer is not a fault: keep it through the epilogue
    w.ctl.disarm = disarm
    orig_user = w.user

    def user(side, op, *a):
        ok, d = orig_user(side, op, *a)
        if ok:
            if w.cs is None:
                ex.offline_ops += 1
            if op in ("rename", "rename_dir"):
                # a stale leftover (of something removed EARLIER) at or below a path that is renamed now shows up under the new name
                # (evaluated before the source of this very rename is recorded as removed: the destination of a rename is a
                # creation the peer must receive, not a leftover - seeded change C06-b hid behind exactly that)
                for r in list(ex.user_removed):
                    if r == a[0] or r.startswith(a[0] + "/"):
                        ex.user_removed.add(a[1] + r[len(a[0]):])
            if op in ("delete", "rmtree", "rmdir", "rename", "rename_dir"):
                ex.user_removed.add(a[0])
        return ok, d
    w.user = user

    def x_quiet_restart(exx, variant):
        """restart at a quiet point with nothing changed offline: zero provider writes afterwards"""
        if w.cs is None:
            return False
        r = w.quiesce()
        if r is None:
            exx.nonquiescent = True
            return True
        t0, t1 = w.tree(0), w.tree(1)
        if t0 != t1:
            return True                     # not a synchronised point: C01's business
        ex.synced_at_down |= __import__("props.common", fromlist=["all_payloads"]).all_payloads(t0)
        w.down()
        w.up(variant)
        exx.restarts += 1
        before = w.ctl.npw
        r = w.quiesce()
        if r is None:
            exx.nonquiescent = True
            return True
        if w.ctl.npw != before:
            exx.quiet_restart_writes = (variant, [x[:4] for x in w.ctl.writes[-(w.ctl.npw - before):]][:4])
        return True
    ex.actions["quiet_restart"] = x_quiet_restart
    orig_apply = ex.apply

    def apply(item, record=True):
        if item[0] == "R" and item[1] == "up" and w.cs is None:
            ncur = sum(1 for t, rows in w.sd.items() if "_cursor_" in t and rows)
            if ncur < 2 or (len(item) > 2 and item[2] in ("badcursor", "nocursor")):
                ex.lost_cursor = True       # a side starts without a usable stored cursor: walk fallback applies
        if item[0] == "R" and item[1] == "down" and w.cs is not None:
            # versions that are on both sides when the engine stops are 'already synchronised files'
            from .common import all_payloads
            ex.synced_at_down |= all_payloads(w.tree(0)) & all_payloads(w.tree(1))
        ok = orig_apply(item, record)
        if ok and item[0] == "R" and item[1] == "up":
            ex.restarts += 1
        return ok
    ex.apply = apply


def _rel(w, side, target):
    """sync-root-relative path of a create target (path) / upload target (id)"""
    p = w.provs[side]
    path = target
    try:
        info = p.info_oid(target)
        if info:
            path = info.path
    except Exception:
        pass
    root = w.roots[side]
    return path[len(root):] if isinstance(path, str) and path.startswith(root) else str(path)


class _Everything(set):
    def __contains__(self, k):
        return True


def _related(p, q):
    return p == q or p.startswith(q + "/") or q.startswith(p + "/")


def _verdict(ex, case):
    w = ex.world
    ex.probes = {"restarts": ex.restarts, "offline-ops": ex.offline_ops}
    if ex.quiet_restart_writes:
        return Violation("restart-rewrites", "restart (%s) at a synchronised quiet point with no offline change issued provider writes: %s" % ex.quiet_restart_writes)
    ok_idx = set(x[0] for x in w.ctl.writes)
    rt = [r[:4] for r in ex.retransfers if r[4] in ok_idx]          # only transfers that actually succeeded
    if rt and not case.get("_shadow"):
        # differential: the same history without the stop/restart.  A redundant upload the engine also makes when it
        # is never restarted (it uploads what get_latest() discovered and again when the event arrives) is not a
        # restart defect.
        shadow = {"cfg": case["cfg"], "_shadow": True, "plan": [it for it in ex.plan if it[0] != "R"]}
        sx = Exec(shadow["cfg"])
        _setup(sx, shadow)
        sx.restarts = 1
        sx.synced_at_down = _Everything()
        try:
            sx.run(shadow["plan"])
            sx.epilogue()
        except Violation:
            pass
        okx = set(x[0] for x in sx.world.ctl.writes)
        also = set((r[0], r[1], r[3]) for r in sx.retransfers if r[4] in okx)
        rt = [r for r in rt if (r[0], r[1], r[3]) not in also]
        ex.probes["retransfer-also-without-restart"] = 1
    ex.retransfers = rt
    if ex.retransfers and not case.get("_shadow"):
        # measured, not judged (the quiet-restart family judges re-transfer exactly): the unchanged engine uploads what get_latest()
        # discovered and again when the change event arrives; a stop that falls between the two moves the second upload behind
        # the restart, and the restart-free shadow run - a different interleaving - does not always show the pair
        ex.probes["reupload-after-restart-not-in-shadow"] = len(ex.retransfers)
        ex.retransfers = []
    if ex.retransfers:
        return Violation("retransfer", "after a restart the engine re-transferred content the destination already held: %s" % (ex.retransfers[:3],),
                         paths=[_rel(w, r[0], r[2]) for r in ex.retransfers[:3]])
    if ex.nonquiescent:
        return Violation("nonquiescent", "engine still busy after the round budget")
    t0, t1 = w.tree(0), w.tree(1)
    if t0 is None or t1 is None:
        return Violation("root-missing", "a sync root vanished")
    one_sided = len(set(it[1] for it in ex.plan if it[0] == "U")) <= 1
    a, b = (t0, t1) if one_sided else case_reconcile(ex, strip_conflicted(t0), strip_conflicted(t1))
    if a != b:
        toks, detail = diff_trees(a, b)
        paths = [s.split(" ")[0] for s in detail.split("; ")]
        if ex.lost_cursor:
            # the statement only promises that created/modified objects reach the peer: a walk cannot report deletions
            def tolerated(pth):
                va, vb = a.get(pth), b.get(pth)
                # (the stale object may meanwhile carry the engine's '.conflicted' decoration: a later object claimed its name)
                import re
                bare = re.sub(r"\.conflicted\d*", "", pth)
                return (va is None or vb is None) and any(_related(pth, r) or _related(bare, r) for r in ex.user_removed)
            if all(tolerated(p) for p in paths):
                lv = loss_violation(ex)
                return lv if lv else (None, "lostcursor-stale-leftover")
        cls = "mirror-mismatch" if one_sided else "diverged"
        return Violation(cls, detail, tokens=list(toks), paths=paths)
    return loss_violation(ex)


def generate(rng, tier, index):
    flav = rng.choice(ALL_FLAVOURS + ("oo_ci", "oo_mix", "oo_xim"))
    style = weighted(rng, (("eager", 2), ("batched", 4), ("bursty", 1), ("split", 3)))
    sides = rng.choice([(0,), (1,), (0, 1), (0, 1)])
    case = {"prop": ID, "cfg": {"flavour": flav}, "style": style, "family": "restart-" + style}
    if index % 2:
        case["cfg"]["same_process"] = True      # restart inside one process: the provider objects survive and still know their root
    mix = random_mix(rng)
    if flav in ("oo_ci", "oo_mix", "oo_xim"):
        mix["recase"] = 3       # case-only renames: what a case-insensitive side must still tell apart

    def body(ex):
        w = ex.world
        if rng.random() < 0.12:
            # quiet-point restart family
            for _ in range(rng.randint(1, 4)):
                side = rng.choice(sides)
                op = propose(rng, w.tree(side), {"create": 4, "mkdir": 2, "write": 2, "rename": 1}, ex.new_payload)
                if op:
                    ex.apply(["U", side] + list(op))
            ex.apply(["X", "quiet_restart", weighted(rng, VARIANTS)])
            return
        for wh in (2, 0, 1):          # (sync service first: it validates the roots the event services wait for) as in production, every service has run at least once before anything else happens
            ex.apply(["S", wh])
        n = rng.randint(1, 7)
        nrest = rng.randint(1, 2)
        at = sorted(rng.randrange(0, n + 1) for _ in range(nrest))
        done = tries = 0

        def restart():
            ex.apply(["R", "down"])
            for _ in range(rng.randrange(0, 4)):
                side = rng.choice(sides)
                op = propose(rng, w.tree(side), mix, ex.new_payload)
                if op:
                    ex.apply(["U", side] + list(op))
            ex.apply(["R", "up", weighted(rng, VARIANTS)])
            for _ in range(rng.randrange(0, 4)):
                ex.apply(["S", rng.randrange(3)])
        while done < n and tries < n * 6:
            tries += 1
            while at and at[0] <= done:
                at.pop(0)
                restart()
            side = rng.choice(sides)
            op = propose(rng, w.tree(side), mix, ex.new_payload)
            if op is None or not ex.apply(["U", side] + list(op)):
                continue
            done += 1
            sched_after_op(rng, ex, style)
        while at:
            at.pop(0)
            restart()
    return drive(case, body, _verdict, setup=_setup, generating=True)


def replay(case):
    case = dict(case)
    return drive(case, lambda ex: ex.run(case["plan"]), _verdict, setup=_setup)
