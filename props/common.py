"""Shared pieces of the engine-level properties (driver A)."""
import hashlib
import os

from sim import det
from sim.det import CLOCK
from sim.world import World, SimCrash, HarnessError, strip_conflicted, tree_str, FLAVOURS
from sim.plan import Exec, gen_history, canon_user_ops, schedule_sig, DEFAULT_MIX

REAL = ["CloudSync", "SyncManager", "SyncState/SyncEntry/SideState", "EventManager", "Runnable (backoff arithmetic via its own methods)",
        "NotificationManager", "ResolveFile (real temp files)", "MockProvider/MockFS (the repo's in-memory cloud)"]
STUBS = ["clock (virtual)", "thread scheduling (step driver calls do() of each manager under a seeded plan)",
         "Storage (SimStorage: dict with write counting/crash points)", "application callbacks", "users"]

ALL_FLAVOURS = ("oo", "po", "pp", "op", "of")


class Violation(Exception):
    def __init__(self, cls, detail, **kw):
        super().__init__(cls, detail)
        self.cls = cls
        self.detail = detail
        self.kw = kw

    def as_dict(self):
        d = {"cls": self.cls, "detail": self.detail}
        d.update(self.kw)
        return d


def weighted(rng, pairs):
    tot = sum(w for _, w in pairs)
    x = rng.random() * tot
    for v, w in pairs:
        x -= w
        if x < 0:
            return v
    return pairs[-1][0]


def random_mix(rng):
    """swarm: per run a random subset/weighting of op kinds"""
    mix = {}
    for op, w in DEFAULT_MIX.items():
        r = rng.random()
        mix[op] = 0 if r < 0.2 else (w if r < 0.8 else w * 3)
    if not any(mix[k] for k in ("create", "mkdir")):
        mix["create"] = 3
    return mix


def diff_trees(a, b):
    """discrepancy tokens 'L<kind>:R<kind>@depth' + readable detail"""
    toks = set()
    lines = []
    for k in sorted(set(a) | set(b)):
        va, vb = a.get(k), b.get(k)
        if va != vb:
            ka = va[0] if va else "x"
            kb = vb[0] if vb else "x"
            toks.add("%s:%s" % (ka, kb))
            lines.append("%s local=%s remote=%s" % (k, _v(va), _v(vb)))
    return tuple(sorted(toks)), "; ".join(lines)


def _v(v):
    if v is None:
        return "absent"
    if v[0] == "d":
        return "dir"
    return "file(%s)" % v[1].decode("latin1")[:16]


def state_fingerprint(ex):
    """cheap canonical fingerprint of the engine state + trees (for 'distinct states reached')"""
    st = ex.world.cs.state
    rows = []
    for e in st.get_all(discarded=True):
        rows.append((e[0].path, e[0].exists.value, bool(e[0].changed), e[0].hash == e[0].sync_hash, e[0].sync_path,
                     e[1].path, e[1].exists.value, bool(e[1].changed), e[1].hash == e[1].sync_hash, e[1].sync_path,
                     e.ignored.value, e.priority > 0))
    rows.sort(key=repr)
    return hashlib.blake2b(repr(rows).encode(), digest_size=8).digest()


class FingerprintMonitor:
    def __init__(self, every=1):
        self.seen = set()
        self.every = every
        self.n = 0

    def __call__(self, ex, item):
        self.n += 1
        if self.n % self.every == 0 and ex.world.cs is not None:
            self.seen.add(state_fingerprint(ex))


def base_stats(ex, family, fp=None, extra_shape=""):
    st = _base_stats(ex, family, fp, extra_shape)
    if os.environ.get("VERIF_DIGEST"):
        st["digest"] = ex.world.digest() if ex.world.cs is not None else "down"
    return st


def _base_stats(ex, family, fp=None, extra_shape=""):
    w = ex.world
    shape = canon_user_ops(ex.plan) + "|" + schedule_sig(ex.plan) + "|" + str(ex.cfg.get("flavour")) + extra_shape
    faults = {}
    for f in w.ctl.fired:
        k = f[3] + ("-after" if f[4] else "")
        faults[k] = faults.get(k, 0) + 1
    probes = {}
    for u in w.unhandled:
        probes["unhandled:" + u[2] + "@" + u[3]] = probes.get("unhandled:" + u[2] + "@" + u[3], 0) + 1
    for n in w.notes:
        probes["note:" + n[2].value] = probes.get("note:" + n[2].value, 0) + 1
    return {
        "shape": shape,
        "nontrivial": w.ctl.npw >= 1 and ex.steps_between_users >= 1,
        "fingerprints": list(fp.seen) if fp else [],
        "sim_s": CLOCK.now - CLOCK.T0,
        "faults": faults,
        "probes": probes,
        "rounds": max(ex.quiet_rounds) if ex.quiet_rounds else 0,
        "family": family,
        "sample": {"cfg": ex.cfg, "family": family, "plan": ex.plan[:60]},
    }


def case_reconcile(ex, a, b):
    """What "the same relative path" means when a side of the pair is case-insensitive (DESIGN 14).
    (1) A case-sensitive side that holds two names differing only in case is in a state its case-insensitive
        peer cannot represent: those names (and everything below them) are left out of the comparison.
    (2) A name spelt differently on the two sides is the same path for such a pair; it is taken as equal when
        each side holds the spelling its own user gave last and the engine was never quiet in between (two users named
        one object differently: there is no rename to propagate).  Any other difference in spelling is a difference."""
    cs = [p.case_sensitive for p in ex.world.provs]
    if all(cs):
        return a, b
    trees = [dict(a), dict(b)]
    for s in (0, 1):
        if cs[s]:
            seen = {}
            for k in trees[s]:
                seen.setdefault(k.lower(), set()).add(k)
            clash = [f for f, ks in seen.items() if len(ks) > 1]
            for t in trees:
                for k in list(t):
                    if any(k.lower() == f or k.lower().startswith(f + "/") for f in clash):
                        del t[k]
    # who introduced which spelling of a name, and when (plan index): only operations that *give* a name count (create, mkdir,
    # the destination of a rename), and only their last component
    intro = {}          # folded name -> [(plan index, side, spelling)]
    quiet = []
    for i, it in enumerate(ex.plan):
        if it[0] == "Q" or (it[0] == "X" and it[1] == "quiet_restart"):
            quiet.append(i)
        if it[0] == "U" and it[2] in ("create", "mkdir", "rename", "rename_dir", "recase"):
            dst = it[4] if it[2] in ("rename", "rename_dir", "recase") else it[3]
            if isinstance(dst, str) and "/" in dst:
                nm = dst.rsplit("/", 1)[1]
                intro.setdefault(nm.lower(), []).append((i, it[1], nm))

    def independent(x, y):
        """x on side 0 and y on side 1 are spellings of one name that the two users gave independently: each side holds the
        spelling its own user typed last, and the engine was never quiet between the moment both users had named it and the
        last re-spelling (had it been, the pair was synchronised under one spelling and the re-spelling is a rename that
        must be propagated)"""
        ev = intro.get(x.lower(), [])
        last = [None, None]
        first = [None, None]
        for i, sd, nm in ev:
            last[sd] = nm
            if first[sd] is None:
                first[sd] = i
        if last[0] != x or last[1] != y:
            return False
        i_both, i_last = max(first), ev[-1][0]
        return not any(i_both < q < i_last for q in quiet)
    fold1 = {k.lower(): k for k in trees[1]}
    out = [{}, {}]
    moved = set()
    for k0, v0 in trees[0].items():
        k1 = fold1.get(k0.lower())
        if k1 is not None and k1 != k0:
            c0, c1 = k0.split("/"), k1.split("/")
            if all(x == y or independent(x, y) for x, y in zip(c0, c1)):
                out[0][k0.lower()] = v0
                out[1][k0.lower()] = trees[1][k1]
                moved.add(k1)
                continue
        out[0][k0] = v0
    for k1, v1 in trees[1].items():
        if k1 not in moved:
            out[1][k1] = v1
    return out[0], out[1]


def convergence_violation(ex):
    """C01's oracle at quiet."""
    if ex.nonquiescent:
        w = ex.world
        ch = [str(e) for e in list(w.cs.state.changes)[:3]] if w.cs else []
        return Violation("nonquiescent", "engine still busy after the round budget; pending=%s unhandled=%s" % (ch, w.unhandled[-3:]))
    t0, t1 = ex.world.tree(0), ex.world.tree(1)
    if t0 is None or t1 is None:
        return Violation("root-missing", "a sync root vanished: local=%s remote=%s" % (tree_str(t0), tree_str(t1)))
    a, b = case_reconcile(ex, strip_conflicted(t0), strip_conflicted(t1))
    if a != b:
        toks, detail = diff_trees(a, b)
        return Violation("diverged", detail, tokens=list(toks), unhandled=[u[2] + "@" + u[3] for u in ex.world.unhandled][-4:])
    return None


# ------------------------------------------------------------------------------------------ generic run template
def drive(case, body, verdict, setup=None, shape_extra=None, family=None, generating=False):
    """Build the world of case['cfg'], run `body(ex)` (generation or replay of case['plan']), go quiet, evaluate
    `verdict(ex, case)` -> Violation | None | (None, probe-note).  Monitors may raise Violation at any step."""
    ex = Exec(case["cfg"])
    fp = FingerprintMonitor()
    ex.monitors.append(fp)
    note = None
    v = None
    try:
        if setup:
            setup(ex, case)
        body(ex)
        if generating:
            case["plan"] = ex.plan
        ex.epilogue()
        r = verdict(ex, case)
        if isinstance(r, tuple):
            v, note = r
        else:
            v = r
    except Violation as e:
        v = e
        if generating:
            case["plan"] = ex.plan
    st = base_stats(ex, family or case.get("family") or case.get("style"), fp, extra_shape=shape_extra(ex) if shape_extra else "")
    if note:
        st["probes"][note] = st["probes"].get(note, 0) + 1
        st["nontrivial"] = False
    for k, n in getattr(ex, "probes", {}).items():
        st["probes"][k] = st["probes"].get(k, 0) + n
    return {"case": case, "violation": v.as_dict() if v else None, "stats": st}


def sched_after_op(rng, ex, style, maxsteps=3):
    """the engine steps that follow one user operation, by schedule style"""
    if style == "eager":
        ex.apply(["Q"])
    elif style == "batched":
        for _ in range(rng.randrange(0, maxsteps + 1)):
            ex.apply(["S", rng.randrange(3)])
    elif style == "split":
        for _ in range(rng.randrange(0, maxsteps + 2)):
            wh = rng.randrange(3)
            if wh < 2 and rng.random() < 0.6:
                ex.apply(["E", wh, rng.randrange(1, 3)])
            ex.apply(["S", wh])
        if rng.random() < 0.15:
            ex.apply(["T", rng.choice([0.001, 0.003, 0.02])])


def all_payloads(tree):
    return set(v[1] for v in (tree or {}).values() if v[0] == "f")


def loss_violation(ex, exempt=()):
    """C02's provenance rule: every payload a user wrote and no user destroyed is the content of some file on
    at least one side ('.conflicted' names count)."""
    w = ex.world
    have = all_payloads(w.tree(0)) | all_payloads(w.tree(1))
    lost = [p for p in ex.written if p not in ex.destroyed and p not in have and p not in exempt]
    if lost:
        lost.sort()
        return Violation("content-lost", "payload(s) %s written by a user, never deleted/overwritten by a user, exist on neither side; local=%s remote=%s" % (
            [p.decode("latin1") for p in lost], tree_str(w.tree(0)), tree_str(w.tree(1))), lost=[p.decode("latin1") for p in lost],
            paths=[k for k, (s, i) in []])
    return None
