"""C12 Root confinement (DESIGN 5/C12): content outside the roots, prefix/case siblings, boundary moves, declined paths."""
from .common import (Exec, Violation, weighted, random_mix, drive, sched_after_op, convergence_violation, REAL, STUBS,
                     diff_trees, strip_conflicted, tree_str, all_payloads)
from sim.plan import propose
from sim.world import FLAVOURS

ID = "C12"
LEVEL = "exploration"
TECHNIQUE = "deterministic simulation: seeded step scheduler over accounts that hold content outside the sync roots; outside-snapshot invariant after every engine step; path check of every engine-issued write"
RULE = ("each run = flavour pair (incl. event filtering on/off, mixed case rules), roots given by path or by id, accounts pre-populated outside the roots (/other, the prefix siblings /localX and /local.bak "
        "resp. /remoteX, a case sibling /LOCAL on case-sensitive sides, files in the account root), optionally a translate function that declines the subtree /skip from the start or starts declining it later, when it already holds synchronised content; history of 1-8 operations mixing inside "
        "ops, outside ops and moves across the boundary in both directions, under schedule style eager|batched|bursty|split. Oracles: after every engine step everything outside each root (and under "
        "a declined subtree) is exactly what users left there; every engine-issued create/mkdir/upload/rename/delete names a path inside that side's root; a content version that users only ever kept "
        "outside a root appears nowhere inside the peer's root; at quiet the inside trees converge (move-out = deletion on the peer, move-in = creation). distinct = (history shape, schedule, flavour, "
        "root mode, decline); non-trivial = >=1 outside/boundary operation performed and >=1 engine write.")
ASSUMPTIONS = ["MockProvider is the cloud contract", "bounded histories", "names inside the roots are lower-case only, so mixed-case flavour pairs cannot produce legitimate case collisions"]
LEVEL_TEXT = "seeded exploration with a snapshot invariant at every step boundary and a per-call path check"
LEVEL_NOTE = "trusted: MockProvider; the harness resolves id-addressed calls to paths through info_oid immediately before forwarding them"

FLAVS = ("oo", "po", "pp", "op", "of", "ff", "oo_mix", "po_mix", "oo_xim")
OUTSIDE_DIRS = {0: ["/other", "/localX", "/local.bak"], 1: ["/other", "/remoteX", "/remote.bak"]}


def budget(tier):
    return {"quick": {"runs": 5000, "wall": 170}, "thorough": {"runs": 60000, "wall": 900}}[tier]


def _inside(root, path):
    return path == root or path.startswith(root + "/")


def _outside_view(ex, side):
    """everything in the account that is not under the root, plus declined subtrees"""
    w = ex.world
    root = w.roots[side]
    t = w.account_tree(side) or {}
    out = {}
    for k, v in t.items():
        if not _inside(root, k):
            out[k] = v
        elif ex.decline and _inside(root + ex.decline, k):
            out[k] = v
    return out


class Confine:
    def __call__(self, ex, item):
        w = ex.world
        if item[0] in ("S", "Q", "X") and w.cs is not None:
            for side in (0, 1):
                now = _outside_view(ex, side)
                if now != ex.outside[side]:
                    _, d = diff_trees(ex.outside[side], now)
                    raise Violation("outside-modified", "after %s the engine changed content outside root %s on side %d (before vs after): %s" % (
                        item, w.roots[side], side, d.replace("local=", "before=").replace("remote=", "after=")), paths=[s.split(" ")[0] for s in d.split("; ")])
            # every engine-issued write names a path inside the root
            for wr in w.ctl.writes[ex.writes_seen:]:
                idx, side, name, desc, step_no, _ = wr
                root = w.roots[side]
                paths = []
                for x in desc:
                    if isinstance(x, str) and x.startswith("@"):
                        if x not in ("@?", "@None"):
                            paths.append(x[1:])
                    elif isinstance(x, str) and x.startswith("/") and name in ("create", "mkdir", "rename"):
                        paths.append(x)
                csens = FLAVOURS[ex.cfg["flavour"]][side][1]
                for pth in paths:
                    a, b = (pth, root) if csens else (pth.lower(), root.lower())
                    if not _inside(b, a):
                        raise Violation("write-outside-root", "engine call %s%s on side %d names %s which is outside root %s" % (name, desc, side, pth, root), paths=[pth])
                    if ex.decline and _inside(b + ex.decline, a):
                        raise Violation("write-declined", "engine call %s%s on side %d names %s under the declined subtree" % (name, desc, side, pth), paths=[pth])
            ex.writes_seen = len(w.ctl.writes)


def _setup(ex, case):
    w = ex.world
    ex.decline = case.get("decline")
    ex.boundary_ops = 0
    ex.outside_only = set()       # payloads users only ever kept outside the roots
    ex.went_inside = set()
    w.ctl.resolve_paths = True
    ex.writes_seen = 0
    def install_decline(dec):
        def translate(cs, side, path):
            # decline the subtree on both sides
            for s in (0, 1):
                if _inside(w.roots[s] + dec, path):
                    return None
            return NotImplemented
        w.translate = translate
    if ex.decline:
        install_decline(ex.decline)

    def x_decline(exx, dec):
        """the application starts declining a subtree that may already hold synchronised content (an exclusion added later)"""
        if exx.decline:
            return False
        exx.decline = dec
        install_decline(dec)
        # from now on that subtree is 'left alone on both sides': it joins the outside snapshot
        for side in (0, 1):
            t = w.tree(side) or {}
            for k, v in t.items():
                if v[0] == "f" and _inside(dec, k):
                    exx.went_inside.discard(v[1])
        exx.outside = [_outside_view(exx, 0), _outside_view(exx, 1)]
        exx.late_decline = True
        return True
    ex.actions["decline"] = x_decline
    ex.late_decline = False
    # pre-populate the accounts outside the roots (before the engine has run at all)
    n = 0
    for side in (0, 1):
        p = w.provs[side]
        csens = FLAVOURS[case["cfg"]["flavour"]][side][1]
        dirs = list(OUTSIDE_DIRS[side])
        if csens:
            dirs.append(w.roots[side].upper())
        for d in dirs:
            w.user_abs(side, "mkdir", d)
            n += 1
            pay = "out%d" % n
            w.user_abs(side, "create", d + "/o.txt", pay)
            ex.outside_only.add(pay.encode())
        pay = "acc%d" % side
        w.user_abs(side, "create", "/x.txt", pay)
        ex.outside_only.add(pay.encode())
    ex.outside = [_outside_view(ex, 0), _outside_view(ex, 1)]
    ex.monitors.append(Confine())
    orig_apply = ex.apply

    def apply(item, record=True):
        ok = orig_apply(item, record)
        if ok and item[0] in ("U", "A"):
            side = item[1]
            root = w.roots[side]
            if item[0] == "A":
                ex.boundary_ops += 1
                op, a = item[2], item[3:]
                if op in ("create", "write"):
                    pay = a[1].encode()
                    if _inside(root, a[0]) and not (ex.decline and _inside(root + ex.decline, a[0])):
                        ex.went_inside.add(pay)
                    else:
                        ex.outside_only.add(pay)
                if op in ("rename", "rename_dir") and _inside(root, a[1]):
                    # moved in: whatever it carries is now legitimately inside
                    t = w.account_tree(side) or {}
                    for k, v in t.items():
                        if v[0] == "f" and _inside(a[1], k):
                            ex.went_inside.add(v[1])
            else:
                if item[2] in ("create", "write"):
                    rel = item[3]
                    if ex.decline and _inside(ex.decline, rel):
                        ex.outside_only.add(item[4].encode())
                    else:
                        ex.went_inside.add(item[4].encode())
                if item[2] in ("rename", "rename_dir") and ex.decline and not _inside(ex.decline, item[4]):
                    t = w.tree(side) or {}
                    for k, v in t.items():
                        if v[0] == "f" and _inside(item[4], k):
                            ex.went_inside.add(v[1])
            ex.outside[side] = _outside_view(ex, side)
        return ok
    ex.apply = apply


def _inside_tree(ex, side):
    t = ex.world.tree(side) or {}
    if ex.decline:
        t = {k: v for k, v in t.items() if not _inside(ex.decline, k)}
    return t


def _verdict(ex, case):
    w = ex.world
    ex.probes = {"boundary-ops": ex.boundary_ops}
    if ex.nonquiescent:
        return Violation("nonquiescent", "engine still busy after the round budget")
    t0, t1 = _inside_tree(ex, 0), _inside_tree(ex, 1)
    leak = (ex.outside_only - ex.went_inside) if not ex.late_decline else set()
    for side, t in ((0, t0), (1, t1)):
        bad = [k for k, v in t.items() if v[0] == "f" and v[1] in leak]
        if bad:
            return Violation("outside-content-synced", "content that users only ever kept outside the roots (or under a declined path) appeared inside root %s of side %d at %s" % (w.roots[side], side, bad), paths=bad)
    a, b = strip_conflicted(t0), strip_conflicted(t1)
    if a != b:
        toks, d = diff_trees(a, b)
        return Violation("diverged", d, tokens=list(toks), paths=[s.split(" ")[0] for s in d.split("; ")])
    if not ex.boundary_ops:
        return None, "no-boundary-op"
    return None


def _gen(rng, ex, case, style):
    w = ex.world
    n = rng.randint(1, 8)
    mix = random_mix(rng)
    done = tries = 0
    late = case.get("late_decline")
    late_at = rng.randrange(1, n + 1) if late else None
    names_d = ("d1", "d2", "skip") if (ex.decline or late) else ("d1", "d2")
    while done < n and tries < n * 6:
        tries += 1
        if late and done == late_at and not ex.decline:
            ex.apply(["Q"])
            ex.apply(["X", "decline", "/skip"])
        side = rng.randrange(2)
        root = w.roots[side]
        r = rng.random()
        acc = w.account_tree(side) or {}
        out_dirs = [k for k, v in acc.items() if v[0] == "d" and not _inside(root, k)]
        out_files = [k for k, v in acc.items() if v[0] == "f" and not _inside(root, k)]
        in_tree = {k: v for k, v in acc.items() if _inside(root, k) and k != root}
        in_dirs = [root] + [k for k, v in in_tree.items() if v[0] == "d"]
        in_files = [k for k, v in in_tree.items() if v[0] == "f"]
        dz = (root + "/skip") if (ex.decline or case.get("late_decline")) else None
        if dz:
            # nothing is moved into, out of or across the (current or future) declined subtree: no defined outcome (see above)
            in_dirs = [k for k in in_dirs if not _inside(dz, k)]
            in_files = [k for k in in_files if not _inside(dz, k)]
        item = None
        if r < 0.45:
            t = w.tree(side)
            m = dict(mix)
            op = propose(rng, t, m, ex.new_payload, names_d=names_d)
            if op and ex.decline and op[0] in ("rename", "rename_dir"):
                # an object moved into / out of a declined subtree is, by the engine's documented design, neither deleted nor
                # created on the peer ("a nested sync took ownership"): the statement only says declined paths are left alone,
                # so such moves have no defined outcome and are not generated
                ins = [_inside(ex.decline, x) for x in op[1:3]]
                if ins[0] != ins[1] or op[1] == ex.decline or op[2] == ex.decline:
                    op = None
            if op and ex.decline and op[0] in ("rmtree", "rmdir") and op[1] == ex.decline:
                op = None
            if op:
                item = ["U", side] + list(op)
        elif r < 0.6 and out_dirs:
            k = rng.randrange(3)
            d = rng.choice(out_dirs)
            if k == 0:
                item = ["A", side, "create", d + "/" + rng.choice(["a", "b"]), ex.new_payload()]
            elif k == 1 and out_files:
                item = ["A", side, "write", rng.choice(out_files), ex.new_payload()]
            else:
                item = ["A", side, "mkdir", d + "/" + rng.choice(["d1", "d2"])]
        elif r < 0.8:
            # move out: file or folder from inside the root to an outside folder
            if in_files and out_dirs and rng.random() < 0.6:
                f = rng.choice(in_files)
                item = ["A", side, "rename", f, rng.choice(out_dirs) + "/" + f.rsplit("/", 1)[1]]
            elif len(in_dirs) > 1 and out_dirs:
                d = rng.choice(in_dirs[1:])
                item = ["A", side, "rename_dir", d, rng.choice(out_dirs) + "/" + d.rsplit("/", 1)[1]]
        else:
            # move in
            if out_files and rng.random() < 0.6:
                f = rng.choice(out_files)
                item = ["A", side, "rename", f, rng.choice(in_dirs) + "/" + rng.choice(["a", "b", "c.txt"])]
            else:
                cands = [d for d in out_dirs if d.count("/") >= 1 and d not in OUTSIDE_DIRS[side] or d.count("/") >= 2]
                cands = [d for d in out_dirs if d.count("/") >= 2]
                if cands:
                    d = rng.choice(cands)
                    item = ["A", side, "rename_dir", d, rng.choice(in_dirs) + "/" + rng.choice(["d1", "d2"])]
        if item is None or not ex.apply(item):
            continue
        done += 1
        sched_after_op(rng, ex, style)


def generate(rng, tier, index):
    flav = rng.choice(FLAVS)
    style = weighted(rng, (("eager", 3), ("batched", 4), ("bursty", 2), ("split", 3)))
    cfg = {"flavour": flav, "root_oids": rng.random() < 0.3}
    r = rng.random()
    case = {"prop": ID, "cfg": cfg, "style": style, "family": style, "decline": "/skip" if r < 0.2 else None, "late_decline": 0.2 <= r < 0.4}
    return drive(case, lambda ex: _gen(rng, ex, case, style), _verdict, setup=_setup, generating=True,
                 shape_extra=lambda ex: "|%s|%s" % (cfg["root_oids"], case["decline"]))


def replay(case):
    case = dict(case)
    return drive(case, lambda ex: ex.run(case["plan"]), _verdict, setup=_setup,
                 shape_extra=lambda ex: "|%s|%s" % (case["cfg"].get("root_oids"), case.get("decline")))
